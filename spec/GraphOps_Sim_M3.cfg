SPECIFICATION Spec
CONSTANTS
  Family = "M3"
  Depth = 3
  RndN = 5
  Mutators = TRUE
  RndK = 4
INVARIANT TypeOK
INVARIANT Emit
CONSTRAINT Bound
CHECK_DEADLOCK FALSE

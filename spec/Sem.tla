------------------------------- MODULE Sem -------------------------------
(***************************************************************************)
(* Layer 1: the mathematics the semantic properties quantify over.         *)
(*                                                                         *)
(*  - arithmetic in the prime field GF(32749) (products fit TLC's 32-bit   *)
(*    integers); "for every SCM / every distribution" becomes polynomial   *)
(*    identity testing at hashed pseudo-random parameter points;           *)
(*  - family S: stochastic structural causal models compatible with a      *)
(*    mixed graph: one latent per declared latent slot (by default one per *)
(*    bidirected edge), one generic kernel per observed node;              *)
(*  - the probability-expression term language of y0.dsl with a            *)
(*    denotation Den(W, e, env);                                           *)
(*  - multi-population models (mechanism tags) for transportability.       *)
(*                                                                         *)
(* A value is an integer in 0..P-1, or Undef (= -1) when a denominator     *)
(* vanished at this parameter point.                                       *)
(***************************************************************************)
EXTENDS MixedGraph, Integers, TLC

P == 32749
Undef == -1

Mul(a, b) == (a * b) % P
Add(a, b) == (a + b) % P
Sub(a, b) == (a + P - b) % P

RECURSIVE PowF(_, _)
PowF(b, e) == IF e = 0 THEN 1
              ELSE IF e % 2 = 1 THEN Mul(b, PowF(b, e - 1))
              ELSE LET h == PowF(b, e \div 2) IN Mul(h, h)
Inv(x) == PowF(x, P - 2)

\* lifted operations (Undef is absorbing)
MulU(a, b) == IF a = Undef \/ b = Undef THEN Undef ELSE Mul(a, b)
AddU(a, b) == IF a = Undef \/ b = Undef THEN Undef ELSE Add(a, b)
DivU(a, b) == IF a = Undef \/ b = Undef \/ b = 0 THEN Undef ELSE Mul(a, Inv(b))

\* a fixed cubic hash into 1..P-1: the "generic parameter" at (seed, tag, code)
H(s, v, c) == LET x == ((s % P) * 131 + (v % P) * 31 + (c % P)) % P
                  y == (Mul(x, x) + 7 * x + 11) % P
                  z == (Mul(Mul(y, y), y) + 3 * x + s) % P
              IN 1 + (z % (P - 1))

Pick(T) == CHOOSE x \in T : TRUE
SumF(op(_), S)  == MapThenFoldSet(Add, 0, op, Pick, S)
ProdF(op(_), S) == MapThenFoldSet(Mul, 1, op, Pick, S)
SumU(op(_), S)  == MapThenFoldSet(AddU, 0, op, Pick, S)
ProdU(op(_), S) == MapThenFoldSet(MulU, 1, op, Pick, S)

ToSet(s) == {s[i] : i \in DOMAIN s}

RECURSIVE Pow3(_)
Pow3(k) == IF k = 0 THEN 1 ELSE 4 * Pow3(k - 1)      \* base 4: digits 1..3 never collide

(***************************************************************************)
(* Family S.  A model M is a record                                        *)
(*   g    : the mixed graph (nodes 1..N)                                   *)
(*   lat  : sequence of node sets, lat[k] = children of the binary latent k*)
(*   card : [node -> 2 | 3] cardinalities                                  *)
(*   tag  : [node -> Nat] mechanism tag (0 = the target's own mechanism;   *)
(*          a domain that differs at v carries another tag at v)           *)
(*   seed : Nat                                                            *)
(***************************************************************************)
EdgeLatents(G) == LET es == G.b IN
   \* one latent per bidirected edge, in a canonical order (by Min*100+Max)
   LET RECURSIVE ord(_)
       ord(S) == IF S = {} THEN <<>>
                 ELSE LET e == CHOOSE e \in S : \A f \in S : 100 * Min(e) + Max(e) <= 100 * Min(f) + Max(f)
                      IN <<e>> \o ord(S \ {e})
   IN ord(es)

\* one (binary) latent per maximal bidirected clique: another latent structure realising the same edges
CliqueLatents(G) ==
   LET cl == {S \in SUBSET G.n : Cardinality(S) >= 2 /\ \A u, v \in S : u = v \/ {u, v} \in G.b}
       mx == {S \in cl : ~\E T \in cl : S # T /\ S \subseteq T}
       RECURSIVE ord(_)
       ord(S) == IF S = {} THEN <<>> ELSE LET e == Pick(S) IN <<e>> \o ord(S \ {e})
   IN ord(mx)

Model(G, lat, card, tag, seed)  == [g |-> G, lat |-> lat, card |-> card, tag |-> tag, seed |-> seed, fam |-> "S"]
ModelF(G, lat, card, tag, seed) == [g |-> G, lat |-> lat, card |-> card, tag |-> tag, seed |-> seed, fam |-> "F"]
Binary(G) == [v \in G.n |-> 2]
NoTag(G)  == [v \in G.n |-> 0]

Assign(M)  == {a \in [M.g.n -> 0..2] : \A v \in M.g.n : a[v] < M.card[v]}
UAssign(M) == [DOMAIN M.lat -> {0, 1}]
LPa(M, v)  == {k \in DOMAIN M.lat : v \in M.lat[k]}
Alt(M, v, x) == (x + 1) % M.card[v]

Code(M, v, a, u) ==
   LET N == Cardinality(M.g.n) IN
   MapThenSumSet(LAMBDA w : (a[w] + 1) * Pow3(w - 1), Pa(M.g, v)) +
   MapThenSumSet(LAMBDA k : (u[k] + 1) * Pow3(N + k - 1), LPa(M, v))

\* P(v = val | parents as in a, latents as in u); the last value by complement
PV(M, v, val, a, u) ==
   LET c == Code(M, v, a, u)
       h(j) == H(M.seed, (M.tag[v] * 23 + v) * 4 + j, c)
   IN IF val < M.card[v] - 1 THEN h(val)
      ELSE Sub(1, SumF(h, 0..(M.card[v] - 2)))
PU(M, k, val) == LET h == H(M.seed, 1000 + k, 0) IN IF val = 1 THEN h ELSE Sub(1, h)

\* weight of the full configuration (a, u) under do(X := a|X): truncated factorisation
Wt(M, a, u, X) == Mul(ProdF(LAMBDA v : PV(M, v, a[v], a, u), M.g.n \ X),
                      ProdF(LAMBDA k : PU(M, k, u[k]), DOMAIN M.lat))
\* table a |-> P(V \ X = a | do(X = a|X)), as an explicit function
JointDoS(M, X) == TLCEval([a \in Assign(M) |-> SumF(LAMBDA u : Wt(M, a, u, X), UAssign(M))])

(***************************************************************************)
(* Family F (functional models, needed for counterfactuals).  Every node v *)
(* has an exogenous noise eps_v in 0..2 with generic weights, a binary     *)
(* latent per latent slot, and a deterministic mechanism                   *)
(*    v := F(v, parents, latents, eps_v)  in {0, 1}                        *)
(* read from the hash and non-constant in eps_v for every argument (keeps  *)
(* every kernel generic without restricting the cross-world coupling).     *)
(* A world is a set of <<node, value>> interventions; the same (u, eps)    *)
(* is solved in every world.  Binary variables only.                       *)
(***************************************************************************)
KNoise == 3
EpsAssign(M) == [M.g.n -> 0..(KNoise - 1)]
Pat(M, v, c) == 1 + (H(M.seed, 300 + M.tag[v] * 37 + v, c) % 6)      \* the six non-constant 3-bit patterns
Fn(M, v, c, e) == (Pat(M, v, c) \div (IF e = 0 THEN 1 ELSE IF e = 1 THEN 2 ELSE 4)) % 2
EpsW(M, v, e) == LET h(j) == H(M.seed, 400 + M.tag[v] * 41 + v, j) IN
                 IF e < KNoise - 1 THEN h(e) ELSE Sub(1, SumF(h, 0..(KNoise - 2)))
WtF(M, u, eps) == Mul(ProdF(LAMBDA v : EpsW(M, v, eps[v]), M.g.n),
                      ProdF(LAMBDA k : PU(M, k, u[k]), DOMAIN M.lat))
RECURSIVE SolveSeq(_, _, _, _, _, _)
SolveSeq(M, w, u, eps, order, acc) ==
  IF order = <<>> THEN acc
  ELSE LET v == Head(order)
           forced == {p \in w : p[1] = v}
           val == IF forced # {} THEN (Pick(forced))[2] ELSE Fn(M, v, Code(M, v, acc, u), eps[v])
       IN SolveSeq(M, w, u, eps, Tail(order), [acc EXCEPT ![v] = val])
Solve(M, w, u, eps) == SolveSeq(M, w, u, eps, TopoMin(M.g), [v \in M.g.n |-> 0])
UEps(M) == UAssign(M) \X EpsAssign(M)
\* all worlds over the intervention set X (binary values)
WorldsOn(X) == {{<<x, f[x]>> : x \in X} : f \in [X -> {0, 1}]}
\* solution table of a set of worlds: [world -> [<<u, eps>> -> solution]]
SolTable(M, worlds) == TLCEval([w \in worlds |-> TLCEval([ue \in UEps(M) |-> Solve(M, w, ue[1], ue[2])])])
WtTable(M) == TLCEval([ue \in UEps(M) |-> WtF(M, ue[1], ue[2])])
\* interventional joint of a functional model, same interface as JointDoS
JointDoF(M, X) ==
  LET T == SolTable(M, WorldsOn(X))
      wt == WtTable(M)
  IN TLCEval([a \in Assign(M) |->
        LET w == {<<x, a[x]>> : x \in X} IN
        SumF(LAMBDA ue : wt[ue], {ue \in UEps(M) : T[w][ue] = a})])
JointDo(M, X) == IF M.fam = "F" THEN JointDoF(M, X) ELSE JointDoS(M, X)
\* probability of a conjunction of counterfactual atoms <<world, node, value>> (worlds solved on shared noise)
PrAtomsF(M, T, wt, atoms) ==
  SumF(LAMBDA ue : wt[ue], {ue \in UEps(M) : \A a \in atoms : T[a[1]][ue][a[2]] = a[3]})

\* a constraint set is a set of <<node, value>> pairs; inconsistent sets have probability 0
Consistent(cons) == \A c1, c2 \in cons : c1[1] = c2[1] => c1[2] = c2[2]
PrCons(J, cons) == IF ~Consistent(cons) THEN 0
                   ELSE SumF(LAMBDA a : J[a], {a \in DOMAIN J : \A c \in cons : a[c[1]] = c[2]})

(***************************************************************************)
(* Terms.  JSON shapes (see harness/ser.py):                               *)
(*   [t |-> "P", ch |-> <<var>>, pa |-> <<var>>, pop |-> k]                *)
(*   [t |-> "M", es |-> <<term>>]   [t |-> "F", a |-> term, b |-> term]    *)
(*   [t |-> "S", r |-> <<name>>, e |-> term]   [t |-> "1"]  [t |-> "0"]    *)
(*   [t |-> "Q", dom |-> <<name>>, cod |-> <<name>>]                       *)
(*   var = [n |-> name, s |-> 0|1|2, iv |-> << <<name, s>> >>]             *)
(* s: 0 no mark, 1 "-x" (the value itself), 2 "+x" (the other value).      *)
(***************************************************************************)
PT(ch, pa, pop) == [t |-> "P", ch |-> ch, pa |-> pa, pop |-> pop]
MT(es)   == [t |-> "M", es |-> es]
FT(a, b) == [t |-> "F", a |-> a, b |-> b]
ST(r, e) == [t |-> "S", r |-> r, e |-> e]
OneT  == [t |-> "1"]
ZeroT == [t |-> "0"]
V0(n) == [n |-> n, s |-> 0, iv |-> <<>>]
VI(n, ivs) == [n |-> n, s |-> 0, iv |-> ivs]      \* ivs: sequence of <<name, s>>

RECURSIVE SetToSeq(_)
SetToSeq(S) == IF S = {} THEN <<>> ELSE LET x == Min(S) IN <<x>> \o SetToSeq(S \ {x})
Vars0(S) == LET q == SetToSeq(S) IN [i \in DOMAIN q |-> V0(q[i])]
VarsI(S, X) == LET q == SetToSeq(S)
                   x == SetToSeq(X)
                   ivs == [i \in DOMAIN x |-> <<x[i], 0>>]
               IN [i \in DOMAIN q |-> VI(q[i], ivs)]

IvNames(v) == {i[1] : i \in ToSet(v.iv)}
TermVars(e) == ToSet(e.ch) \cup ToSet(e.pa)

\* the <<population, intervention set>> pairs whose tables an expression needs
RECURSIVE Dos(_)
Dos(e) ==
  CASE e.t = "P" -> {<<e.pop, IvNames(v)>> : v \in TermVars(e)}
    [] e.t = "M" -> UNION {Dos(e.es[i]) : i \in DOMAIN e.es}
    [] e.t = "F" -> Dos(e.a) \cup Dos(e.b)
    [] e.t = "S" -> Dos(e.e)
    [] OTHER -> {}

\* single-world terms only (family S); a term that mixes worlds has no meaning here
RECURSIVE SingleWorld(_)
SingleWorld(e) ==
  CASE e.t = "P" -> Cardinality({ToSet(v.iv) : v \in TermVars(e)}) <= 1
    [] e.t = "M" -> \A i \in DOMAIN e.es : SingleWorld(e.es[i])
    [] e.t = "F" -> SingleWorld(e.a) /\ SingleWorld(e.b)
    [] e.t = "S" -> SingleWorld(e.e)
    [] OTHER -> TRUE

RECURSIVE Names(_)
Names(e) ==
  CASE e.t = "P" -> {v.n : v \in TermVars(e)} \cup UNION {IvNames(v) : v \in TermVars(e)}
    [] e.t = "M" -> UNION {Names(e.es[i]) : i \in DOMAIN e.es}
    [] e.t = "F" -> Names(e.a) \cup Names(e.b)
    [] e.t = "S" -> Names(e.e) \cup ToSet(e.r)
    [] e.t = "Q" -> ToSet(e.dom) \cup ToSet(e.cod)
    [] OTHER -> {}

RECURSIVE Free(_)
Free(e) ==
  CASE e.t = "P" -> {v.n : v \in TermVars(e)} \cup UNION {IvNames(v) : v \in TermVars(e)}
    [] e.t = "M" -> UNION {Free(e.es[i]) : i \in DOMAIN e.es}
    [] e.t = "F" -> Free(e.a) \cup Free(e.b)
    [] e.t = "S" -> Free(e.e) \ ToSet(e.r)
    [] e.t = "Q" -> ToSet(e.dom) \cup ToSet(e.cod)
    [] OTHER -> {}

\* free names that occur as random variables (not merely as the value of an intervention subscript)
RECURSIVE RandFree(_)
RandFree(e) ==
  CASE e.t = "P" -> {v.n : v \in TermVars(e)}
    [] e.t = "M" -> UNION {RandFree(e.es[i]) : i \in DOMAIN e.es}
    [] e.t = "F" -> RandFree(e.a) \cup RandFree(e.b)
    [] e.t = "S" -> RandFree(e.e) \ ToSet(e.r)
    [] e.t = "Q" -> ToSet(e.dom) \cup ToSet(e.cod)
    [] OTHER -> {}

RECURSIVE HasQ(_)
HasQ(e) == CASE e.t = "Q" -> TRUE
             [] e.t = "M" -> \E i \in DOMAIN e.es : HasQ(e.es[i])
             [] e.t = "F" -> HasQ(e.a) \/ HasQ(e.b)
             [] e.t = "S" -> HasQ(e.e)
             [] OTHER -> FALSE

\* every summation variable occurs free in its summand (sums over absent variables are outside the
\* families of C10-C13, see DESIGN 7)
RECURSIVE WellScoped(_)
WellScoped(e) ==
  CASE e.t = "M" -> \A i \in DOMAIN e.es : WellScoped(e.es[i])
    [] e.t = "F" -> WellScoped(e.a) /\ WellScoped(e.b)
    [] e.t = "S" -> ToSet(e.r) \subseteq Free(e.e) /\ WellScoped(e.e)
    [] OTHER -> TRUE

(***************************************************************************)
(* Denotation.  W is a bundle [m |-> [pop -> model], J |-> [<<pop, X>> ->  *)
(* table]]; env assigns a value to every name.  All models of a bundle     *)
(* have the same node set and cardinalities.                               *)
(***************************************************************************)
Bundle(models, dos) ==
  [m |-> TLCEval(models), envs |-> TLCEval(Assign(models[0])),
   J |-> TLCEval([px \in dos |-> JointDo(models[px[1]], px[2])]),
   \* functional models: solution tables of every world over every intervention set in dos (per population)
   T |-> TLCEval([p \in DOMAIN models |->
           IF models[p].fam = "F"
           THEN SolTable(models[p], UNION {WorldsOn(px[2]) : px \in {q \in dos : q[1] = p}} \cup {{}})
           ELSE <<>>]),
   wt |-> TLCEval([p \in DOMAIN models |-> IF models[p].fam = "F" THEN WtTable(models[p]) ELSE <<>>])]
Envs(W)  == W.envs
ValOf(W, n, s, env) == IF s = 2 THEN Alt(W.m[0], n, env[n]) ELSE env[n]

\* a term whose variables live in several worlds: a counterfactual joint, meaningful in family F only
WorldOf(W, v, env) == {<<i[1], ValOf(W, i[1], i[2], env)>> : i \in ToSet(v.iv)}
AtomsOf(W, S, env) == {<<WorldOf(W, v, env), v.n, ValOf(W, v.n, v.s, env)>> : v \in S}
PTermMulti(W, e, env) ==
  LET M == W.m[e.pop]
      pr(S) == PrAtomsF(M, W.T[e.pop], W.wt[e.pop], AtomsOf(W, S, env))
      den == IF e.pa = <<>> THEN 1 ELSE pr(ToSet(e.pa))
  IN IF M.fam # "F" THEN Assert(FALSE, "multi-world term in a stochastic model")
     ELSE IF den = 0 THEN Undef ELSE Mul(pr(TermVars(e)), Inv(den))

PTermSingle(W, e, env) ==
  LET vars == TermVars(e)
      any  == Pick(vars)
      X    == IvNames(any)
      w    == {<<i[1], ValOf(W, i[1], i[2], env)>> : i \in ToSet(any.iv)}
      cons(S) == {<<v.n, ValOf(W, v.n, v.s, env)>> : v \in S} \cup w
      J    == W.J[<<e.pop, X>>]
      den  == IF e.pa = <<>> THEN 1 ELSE PrCons(J, cons(ToSet(e.pa)))
  IN IF vars = {} THEN 1
     ELSE IF den = 0 THEN Undef
     ELSE Mul(PrCons(J, cons(vars)), Inv(den))

PTerm(W, e, env) == IF Cardinality({ToSet(v.iv) : v \in TermVars(e)}) > 1 THEN PTermMulti(W, e, env)
                    ELSE PTermSingle(W, e, env)

\* an uninterpreted generic function of the values of dom and cod
QTerm(W, e, env) ==
  LET ns == SetToSeq(ToSet(e.dom) \cup ToSet(e.cod))
      c  == MapThenSumSet(LAMBDA i : (env[ns[i]] + 1) * Pow3(i - 1), DOMAIN ns)
      k  == SumSet({Pow3(n) : n \in ToSet(e.dom)}) + 7 * SumSet({Pow3(n) : n \in ToSet(e.cod)})
  IN H(W.m[0].seed, 5000 + k, c)

RECURSIVE Den(_, _, _)
Den(W, e, env) ==
  CASE e.t = "1" -> 1
    [] e.t = "0" -> 0
    [] e.t = "P" -> PTerm(W, e, env)
    [] e.t = "Q" -> QTerm(W, e, env)
    [] e.t = "M" -> ProdU(LAMBDA i : Den(W, e.es[i], env), DOMAIN e.es)
    [] e.t = "F" -> DivU(Den(W, e.a, env), Den(W, e.b, env))
    [] e.t = "S" -> LET r == ToSet(e.r)
                        envs == {f \in Envs(W) : \A v \in DOMAIN f : v \notin r => f[v] = env[v]}
                    IN SumU(LAMBDA f : Den(W, e.e, f), envs)

\* the interventional truth P_pop(Y | do(X)) and its conditional version, as terms of the same language
TruthDo(X, Y, pop)     == PT(VarsI(Y, X), <<>>, pop)
TruthCDo(X, Y, Z, pop) == PT(VarsI(Y, X), VarsI(Z, X), pop)

(***************************************************************************)
(* Comparison of two terms over a grid of models (seeds) and all envs.     *)
(* Result: [ndef, nbad, sig, first] where sig is a hash of the vector of   *)
(* differences (a semantic signature, DESIGN 5.2) and first the first      *)
(* disagreeing point.                                                      *)
(***************************************************************************)
CmpAt(W, e1, e2) ==
  LET envs == Envs(W)
      val  == TLCEval([f \in envs |-> <<Den(W, e1, f), Den(W, e2, f)>>])
      def  == {f \in envs : val[f][1] # Undef /\ val[f][2] # Undef}
      bad  == {f \in def : val[f][1] # val[f][2]}
  IN [ndef |-> Cardinality(def), nbad |-> Cardinality(bad),
      first |-> IF bad = {} THEN <<>> ELSE LET f == Pick(bad) IN <<f, val[f][1], val[f][2]>>,
      sig |-> SumSet({ (val[f][1] * 7 + val[f][2] * 13 + SumSet({(f[v] + 1) * Pow3(v) : v \in DOMAIN f})) % 9973 : f \in bad}) % 99991]
=============================================================================

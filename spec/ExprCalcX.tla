----------------------------- MODULE ExprCalcX -----------------------------
(***************************************************************************)
(* The calculator machine of ExprCalc.tla started from a second atom       *)
(* alphabet over FOUR names: interventional and counterfactual joints with *)
(* two children, so that a sum can range over a child, leave another child *)
(* alone and also name a variable the distribution does not mention at all *)
(* (three disjoint roles plus the intervened name need four names).        *)
(***************************************************************************)
EXTENDS ExprCalc

XAtoms == {
  \* The calculator's generic distribution lives on the complete DAG 1 -> 2 -> 3 -> 4, so an intervention only matters for
  \* LATER names, and RangesX adds the SMALLEST name that is not a free variable of the term; hence: name 1 unmentioned,
  \* name 2 intervened, names 3 and 4 the children.
  Pj(<<VIv(3, 0, <<<<2, 0>>>>), VIv(4, 0, <<<<2, 0>>>>)>>),          \* P[V2](V3, V4)
  Pj(<<VIv(3, 0, <<<<2, 1>>>>), VIv(4, 0, <<<<2, 1>>>>)>>),          \* P[-V2](V3, V4)
  Pj(<<VIv(3, 0, <<<<2, 0>>>>), V0(4)>>),                            \* P(V3 @ V2, V4): two worlds
  Pc(<<VIv(4, 0, <<<<2, 0>>>>)>>, <<VIv(3, 0, <<<<2, 0>>>>)>>),      \* P[V2](V4 | V3)
  Pj(<<VIv(2, 0, <<<<1, 0>>>>), VIv(3, 0, <<<<1, 0>>>>)>>),          \* P[V1](V2, V3)
  Pj(<<V0(1), V0(2), V0(3)>>),
  \* three conditions: written with operator chains,  V4 | V3 | V2 & V1,  the last two arrive as one joint distribution
  Pc(<<V0(4)>>, <<V0(1), V0(2), V0(3)>>) }
InitX == /\ m \in {A(p) : p \in XAtoms} /\ depth = 0
SpecX == InitX /\ [][Step]_vars
=============================================================================

SPECIFICATION Spec
CONSTANTS
  N = 3
  Depth = 3
INVARIANT TypeOK
INVARIANT ExchInverse
INVARIANT ExprVocab
PROPERTY Persistent
PROPERTY Conserve
PROPERTY OutcomesKept
CONSTRAINT Bound
CHECK_DEADLOCK FALSE

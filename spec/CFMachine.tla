----------------------------- MODULE CFMachine -----------------------------
(***************************************************************************)
(* Design-level sanity of the functional model family F (Sem.tla) that     *)
(* gives counterfactual events their meaning.  For every graph of the      *)
(* family and generic seeds TLC checks the axioms of structural            *)
(* counterfactuals:                                                        *)
(*   Normalised    - every interventional joint sums to one;               *)
(*   Effectiveness - P(X_x = x') = 0 for x' # x;                           *)
(*   Composition   - P(Y_x = y, X = x) = P(Y = y, X = x);                  *)
(*   Exclusion     - an intervention on a non-ancestor does not change a   *)
(*                   variable: Y_{x,z} = Y_x pointwise when Z is not an    *)
(*                   ancestor of Y once the edges into X are removed;      *)
(*   Compatible    - the interventional joints factorise as the graph      *)
(*                   demands: the ID reference estimand of ID.tla denotes   *)
(*                   P(y | do x) in F-models too.                          *)
(***************************************************************************)
EXTENDS ID, Families

CONSTANTS Family, RndN, RndK, Seeds
VARIABLES g, phase
vars == <<g, phase>>

Init == g \in GraphFamily(Family, RndN, RndK) /\ phase = "chosen"
Run  == phase = "chosen" /\ phase' = "done" /\ g' = g
Spec == Init /\ [][Run]_vars

MF(s) == ModelF(g, EdgeLatents(g), Binary(g), NoTag(g), s)
AllDos == {<<0, X>> : X \in SUBSET g.n}
WF(s) == Bundle([p \in {0} |-> MF(s)], AllDos)

Normalised == phase = "done" =>
  \A s \in Seeds : LET W == WF(s) IN
     \A X \in SUBSET g.n : \A w \in WorldsOn(X) :
        SumF(LAMBDA a : W.J[<<0, X>>][a], {a \in W.envs : \A p \in w : a[p[1]] = p[2]}) = 1

Effectiveness == phase = "done" =>
  \A s \in Seeds : LET W == WF(s) IN
     \A x \in g.n : \A v \in {0, 1} :
        PrAtomsF(W.m[0], W.T[0], W.wt[0], {<<{<<x, v>>}, x, 1 - v>>}) = 0

Composition == phase = "done" =>
  \A s \in Seeds : LET W == WF(s) IN
     \A x \in g.n : \A y \in g.n \ {x} : \A vx \in {0, 1} : \A vy \in {0, 1} :
        PrAtomsF(W.m[0], W.T[0], W.wt[0], {<<{<<x, vx>>}, y, vy>>, <<{}, x, vx>>})
      = PrAtomsF(W.m[0], W.T[0], W.wt[0], {<<{}, y, vy>>, <<{}, x, vx>>})

Exclusion == phase = "done" =>
  \A s \in Seeds : LET W == WF(s) IN
     \A x \in g.n : \A z \in g.n \ {x} : \A y \in g.n \ {x, z} :
        z \notin An(RemoveIn(g, {x}), {y}) =>
           \A vx \in {0, 1} : \A vz \in {0, 1} : \A ue \in UEps(W.m[0]) :
              W.T[0][{<<x, vx>>, <<z, vz>>}][ue][y] = W.T[0][{<<x, vx>>}][ue][y]

Compatible == phase = "done" =>
  \A q \in Queries(g) :
     LET r == IDRef(g, q[1], q[2]) IN
     IsFail(r) \/ \A s \in Seeds :
        LET W == Bundle([p \in {0} |-> MF(s)], Dos(r) \cup Dos(TruthDo(q[1], q[2], 0)))
            c == CmpAt(W, r, TruthDo(q[1], q[2], 0))
        IN c.nbad = 0 /\ c.ndef > 0
=============================================================================

----------------------------- MODULE CFMachine -----------------------------
(***************************************************************************)
(* Design-level sanity of the functional model family F (Sem.tla) that     *)
(* gives counterfactual events their meaning.  For every graph of the      *)
(* family and generic seeds TLC checks the axioms of structural            *)
(* counterfactuals:                                                        *)
(*   Normalised    - every interventional joint sums to one;               *)
(*   Effectiveness - P(X_x = x') = 0 for x' # x;                           *)
(*   Composition   - P(Y_x = y, X = x) = P(Y = y, X = x);                  *)
(*   Exclusion     - an intervention on a non-ancestor does not change a   *)
(*                   variable: Y_{x,z} = Y_x pointwise when Z is not an    *)
(*                   ancestor of Y once the edges into X are removed;      *)
(*   Compatible    - the interventional joints factorise as the graph      *)
(*                   demands: the ID reference estimand of ID.tla denotes   *)
(*                   P(y | do x) in F-models too.                          *)
(***************************************************************************)
EXTENDS ID, Families

CONSTANTS Family, RndN, RndK, Seeds,
          Grows   \* enable the history action Grow
VARIABLES g, phase
vars == <<g, phase>>

Init == g \in GraphFamily(Family, RndN, RndK) /\ phase = "chosen"
Run  == phase = "chosen" /\ phase' = "done" /\ g' = g
\* History: the graph the program holds grows by one directed edge (NxMixedGraph.add_directed_edge on a live object).
\* Modularity of structural models (GrowLocal below): only the mechanism at the head of the new edge changes, so every
\* interventional distribution restricted to the non-descendants of the head is what it was.  The harness replays Grow
\* steps on one real object (drive_cf.py history_pass: query, add the edge in place, query again): nothing that was
\* derived from the smaller graph may survive in the answers about the larger one.
NewDirected == {e \in g.n \X g.n : e[1] # e[2] /\ e \notin g.d /\ IsAcyclic(MkG(g.n, g.d \cup {e}, g.b))}
Grow == /\ phase = "done" /\ Grows
        /\ \E e \in NewDirected : g' = MkG(g.n, g.d \cup {e}, g.b)
        /\ phase' = "done"
Next == Run \/ Grow
Spec == Init /\ [][Next]_vars

MF(s) == ModelF(g, EdgeLatents(g), Binary(g), NoTag(g), s)
AllDos == {<<0, X>> : X \in SUBSET g.n}
WF(s) == Bundle([p \in {0} |-> MF(s)], AllDos)

Normalised == phase = "done" =>
  \A s \in Seeds : LET W == WF(s) IN
     \A X \in SUBSET g.n : \A w \in WorldsOn(X) :
        SumF(LAMBDA a : W.J[<<0, X>>][a], {a \in W.envs : \A p \in w : a[p[1]] = p[2]}) = 1

Effectiveness == phase = "done" =>
  \A s \in Seeds : LET W == WF(s) IN
     \A x \in g.n : \A v \in {0, 1} :
        PrAtomsF(W.m[0], W.T[0], W.wt[0], {<<{<<x, v>>}, x, 1 - v>>}) = 0

Composition == phase = "done" =>
  \A s \in Seeds : LET W == WF(s) IN
     \A x \in g.n : \A y \in g.n \ {x} : \A vx \in {0, 1} : \A vy \in {0, 1} :
        PrAtomsF(W.m[0], W.T[0], W.wt[0], {<<{<<x, vx>>}, y, vy>>, <<{}, x, vx>>})
      = PrAtomsF(W.m[0], W.T[0], W.wt[0], {<<{}, y, vy>>, <<{}, x, vx>>})

Exclusion == phase = "done" =>
  \A s \in Seeds : LET W == WF(s) IN
     \A x \in g.n : \A z \in g.n \ {x} : \A y \in g.n \ {x, z} :
        z \notin An(RemoveIn(g, {x}), {y}) =>
           \A vx \in {0, 1} : \A vz \in {0, 1} : \A ue \in UEps(W.m[0]) :
              W.T[0][{<<x, vx>>, <<z, vz>>}][ue][y] = W.T[0][{<<x, vx>>}][ue][y]

\* modularity: after Grow, for every do-set X the joint of the non-descendants of the new edge's head is unchanged
MFof(G, s) == ModelF(G, EdgeLatents(G), Binary(G), NoTag(G), s)
WFof(G, s) == Bundle([p \in {0} |-> MFof(G, s)], {<<0, X>> : X \in SUBSET G.n})
GrowLocal ==
  [][(phase = "done" /\ phase' = "done") =>
       LET e == CHOOSE e \in g'.d : e \notin g.d
           nd == g.n \ De(g', {e[2]})
       IN \A s \in Seeds : LET W1 == WFof(g, s)  W2 == WFof(g', s) IN
            \A X \in SUBSET g.n : \A b \in W1.envs :
               SumF(LAMBDA a : W1.J[<<0, X>>][a], {a \in W1.envs : \A v \in nd : a[v] = b[v]})
             = SumF(LAMBDA a : W2.J[<<0, X>>][a], {a \in W2.envs : \A v \in nd : a[v] = b[v]})]_vars

Compatible == phase = "done" =>
  \A q \in Queries(g) :
     LET r == IDRef(g, q[1], q[2]) IN
     IsFail(r) \/ \A s \in Seeds :
        LET W == Bundle([p \in {0} |-> MF(s)], Dos(r) \cup Dos(TruthDo(q[1], q[2], 0)))
            c == CmpAt(W, r, TruthDo(q[1], q[2], 0))
        IN c.nbad = 0 /\ c.ndef > 0
=============================================================================

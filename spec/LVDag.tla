------------------------------- MODULE LVDag -------------------------------
(***************************************************************************)
(* Layer 1/2: latent-variable DAGs, latent projection, Evans' rules.       *)
(* A tagged DAG is [n |-> nodes, d |-> directed edges, lat |-> latent      *)
(* nodes].  ToLV / FromLV are the conversions of y0.graph; Projection is   *)
(* the latent projection by its path definition; the four simplification   *)
(* rules of Evans are actions of LVMachine.                                *)
(***************************************************************************)
EXTENDS Separation

TD(n, d, lat) == [n |-> n, d |-> d, lat |-> lat]
Obs(D) == D.n \ D.lat
AsG(D) == MkG(D.n, D.d, {})

\* ADMG -> LV-DAG: one fresh latent per bidirected edge (named like Separation!Lid)
ToLV(G) == TD(G.n \cup {Lid(e) : e \in G.b},
              G.d \cup UNION {{<<Lid(e), v>> : v \in e} : e \in G.b},
              {Lid(e) : e \in G.b})
\* LV-DAG -> ADMG as y0 reads it: observed nodes; a directed edge for every edge leaving an observed node;
\* a bidirected edge between every two children of a latent
FromLV(D) == MkG(Obs(D),
                 {e \in D.d : e[1] \in Obs(D) /\ e[2] \in Obs(D)},
                 {{u, v} : <<u, v>> \in {p \in Obs(D) \X Obs(D) : p[1] # p[2] /\
                               \E l \in D.lat : <<l, p[1]>> \in D.d /\ <<l, p[2]>> \in D.d}})

\* nodes reachable from v by a directed path whose intermediate nodes are all latent (length >= 1)
RECURSIVE LatReach(_, _, _)
LatReach(D, frontier, seen) ==
  LET nxt == UNION {Ch(AsG(D), v) : v \in frontier} \ seen IN
  IF nxt = {} THEN seen
  ELSE LatReach(D, nxt \cap D.lat, seen \cup nxt)
ReachVia(D, v) == LatReach(D, {v}, {})

Projection(D) ==
  LET O == Obs(D) IN
  MkG(O,
      {p \in O \X O : p[1] # p[2] /\ p[2] \in ReachVia(D, p[1])},
      {{u, v} : <<u, v>> \in {p \in O \X O : p[1] # p[2] /\
                   \E l \in D.lat : p[1] \in ReachVia(D, l) /\ p[2] \in ReachVia(D, l)}})

\* ---------------------------------------------------------------- Evans' rules (one step each)
Fresh(D) == Max(D.n \cup {200}) + 1
\* rule 1: a latent with parents becomes exogenous: parents are wired to its children
Rule1(D, l) == TD((D.n \ {l}) \cup {Fresh(D)},
                  {e \in D.d : e[1] # l /\ e[2] # l}
                     \cup (Pa(AsG(D), l) \X Ch(AsG(D), l))
                     \cup {<<Fresh(D), c>> : c \in Ch(AsG(D), l)},
                  (D.lat \ {l}) \cup {Fresh(D)})
Rule1On(D) == {l \in D.lat : Pa(AsG(D), l) # {}}
\* rule 2: a latent without children disappears;  rule 3: so does a latent with a single child
Drop(D, l) == TD(D.n \ {l}, {e \in D.d : e[1] # l /\ e[2] # l}, D.lat \ {l})
Rule2On(D) == {l \in D.lat : Ch(AsG(D), l) = {}}
Rule3On(D) == {l \in D.lat : Pa(AsG(D), l) = {} /\ Cardinality(Ch(AsG(D), l)) = 1}
\* rule 4: an exogenous latent whose children are a subset of another exogenous latent's children is redundant
Rule4On(D) == {l \in D.lat : Pa(AsG(D), l) = {} /\
                  \E k \in D.lat \ {l} : Pa(AsG(D), k) = {} /\ Ch(AsG(D), l) \subseteq Ch(AsG(D), k)
                                         /\ (Ch(AsG(D), l) # Ch(AsG(D), k) \/ l > k)}
Simplified(D) == Rule1On(D) = {} /\ Rule2On(D) = {} /\ Rule3On(D) = {} /\ Rule4On(D) = {}
EvansSucc(D) == {Rule1(D, l) : l \in Rule1On(D)} \cup {Drop(D, l) : l \in Rule2On(D) \cup Rule3On(D) \cup Rule4On(D)}

\* ---------------------------------------------------------------- families
FwdDags(N) == {MkG(1..N, d, {}) : d \in SUBSET FwdPairs(N)}
TaggedDags(N) == {TD(1..N, d, lat) : d \in SUBSET FwdPairs(N), lat \in SUBSET (1..N)}
=============================================================================

SPECIFICATION Spec
CONSTANTS
  Family = "A4o"
  Limits <- LimitsB
  PairOrder = "min"
INVARIANT Sound
INVARIANT AtMostOne
INVARIANT Exact
INVARIANT TwoSided
INVARIANT Progress
PROPERTY Monotone
CHECK_DEADLOCK FALSE

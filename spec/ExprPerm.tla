----------------------------- MODULE ExprPerm -----------------------------
(***************************************************************************)
(* Presentation permutations (C11).  State = a presentation (a term of     *)
(* Sem.tla); one action: Permute - reorder the factors of a product,       *)
(* re-nest a product (group a contiguous run of factors into an inner      *)
(* product or splice an inner product into its parent), or reorder the     *)
(* variables on either side of a conditioning bar.  Every reachable        *)
(* presentation of a base must canonicalise to the same object as the      *)
(* base: an action property  [][canon' = canon]  of the implementation,    *)
(* checked by replaying every generated presentation through y0.           *)
(* Design-level invariant: Permute never changes the denotation.           *)
(***************************************************************************)
EXTENDS ExprMath, Json

CONSTANTS MaxDepth, Seeds, Check
VARIABLES base, e, depth
vars == <<base, e, depth>>

P0(ch, pa) == PT([i \in DOMAIN ch |-> V0(ch[i])], [i \in DOMAIN pa |-> V0(pa[i])], 0)
PI(ch, pa, x) == PT([i \in DOMAIN ch |-> VI(ch[i], <<<<x, 1>>>>)], [i \in DOMAIN pa |-> VI(pa[i], <<<<x, 1>>>>)], 0)

Bases == <<
  MT(<<P0(<<1>>, <<2, 3>>), P0(<<2>>, <<3>>), P0(<<3>>, <<>>)>>),
  ST(<<2>>, MT(<<P0(<<1>>, <<2>>), P0(<<2, 3>>, <<>>)>>)),
  FT(MT(<<P0(<<1, 2>>, <<>>), P0(<<3>>, <<1, 2>>)>>), MT(<<P0(<<2>>, <<>>), P0(<<1>>, <<2>>)>>)),
  MT(<<P0(<<1, 2>>, <<3>>), PT(<<V0(1)>>, <<V0(2)>>, 1), PI(<<1>>, <<3>>, 2)>>),
  MT(<<P0(<<1>>, <<>>), P0(<<2>>, <<1>>), P0(<<3>>, <<1, 2>>), P0(<<4>>, <<1, 2, 3>>)>>),
  ST(<<1, 3>>, MT(<<P0(<<1, 3>>, <<2, 4>>), FT(P0(<<2, 4>>, <<>>), P0(<<4>>, <<>>)), P0(<<4>>, <<3>>)>>)),
  MT(<<P0(<<3, 1, 2>>, <<4>>), ST(<<2>>, P0(<<2, 1>>, <<4, 3>>)), P0(<<4>>, <<>>), PT(<<V0(2), V0(1)>>, <<>>, 2), P0(<<2>>, <<1>>)>>),
  \* counterfactual distributions: the same variable in several worlds on one side of the bar (the ordering given to
  \* canonicalize ranks names only, so these variables tie)
  MT(<<PT(<<VI(1, <<<<2, 1>>>>), VI(1, <<<<3, 1>>>>), VI(1, <<<<4, 1>>>>)>>, <<>>, 0), P0(<<2>>, <<3>>)>>),
  MT(<<PT(<<VI(2, <<<<3, 1>>>>)>>, <<VI(1, <<<<2, 1>>>>), VI(1, <<<<3, 2>>>>), V0(4)>>, 0), P0(<<4>>, <<>>)>>),
  \* sums over products one of which is a prefix of the other, and sums over the same product with different ranges
  \* (the factor order must be total and computable for sort keys of different lengths)
  MT(<<ST(<<2>>, MT(<<P0(<<1>>, <<>>), P0(<<2>>, <<1>>), P0(<<3>>, <<1, 2>>)>>)), ST(<<2>>, MT(<<P0(<<1>>, <<>>), P0(<<2>>, <<1>>)>>)),
       ST(<<1>>, MT(<<P0(<<1>>, <<>>), P0(<<2>>, <<1>>)>>)), P0(<<4>>, <<>>)>>),
  \* products whose factors include a bare sum next to a fraction (multiplication of a sum by a fraction is the one
  \* product the DSL does not merge into a fraction, so folding factors in written order is not commutative there)
  MT(<<ST(<<2>>, P0(<<1, 2>>, <<3>>)), FT(P0(<<3, 4>>, <<>>), P0(<<4>>, <<>>)), P0(<<4>>, <<1>>)>>),
  MT(<<ST(<<1>>, P0(<<1>>, <<2>>)), FT(P0(<<2>>, <<>>), ST(<<2>>, P0(<<2, 3>>, <<>>)))>>)
>>

Permuted(s, q) == [i \in DOMAIN s |-> s[q[i]]]
SeqPerms(s) == {Permuted(s, q) : q \in Perms(s)}
\* adjacent transpositions and rotations are enough to generate every order within two steps for the
\* lengths used here; all permutations are used for sequences up to length 4
SomePerms(s) == IF Len(s) <= 4 THEN SeqPerms(s)
                ELSE {Permuted(s, [i \in DOMAIN s |-> IF i = j THEN j + 1 ELSE IF i = j + 1 THEN j ELSE i]) : j \in 1..(Len(s) - 1)}
                     \cup {Permuted(s, [i \in DOMAIN s |-> (i % Len(s)) + 1])}

Group(es, i, j) == SubSeq(es, 1, i - 1) \o <<MT(SubSeq(es, i, j))>> \o SubSeq(es, j + 1, Len(es))
Splice(es, i)   == SubSeq(es, 1, i - 1) \o es[i].es \o SubSeq(es, i + 1, Len(es))

RECURSIVE Perm1(_)
RECURSIVE WellGrouped(_)
Perm1(x) ==
  CASE x.t = "P" -> {[x EXCEPT !.ch = c] : c \in SeqPerms(x.ch)} \cup {[x EXCEPT !.pa = c] : c \in SeqPerms(x.pa)}
    [] x.t = "M" ->
         {[x EXCEPT !.es = c] : c \in SomePerms(x.es)}
         \cup {[x EXCEPT !.es = Group(x.es, p[1], p[2])] :
                   p \in {pp \in (1..Len(x.es)) \X (1..Len(x.es)) : pp[1] < pp[2] /\ pp[2] - pp[1] + 1 < Len(x.es)}}
         \cup {[x EXCEPT !.es = Splice(x.es, i)] : i \in {k \in DOMAIN x.es : x.es[k].t = "M"}}
         \cup UNION {{[x EXCEPT !.es[i] = f] : f \in Perm1(x.es[i])} : i \in DOMAIN x.es}
    [] x.t = "F" -> {[x EXCEPT !.a = f] : f \in Perm1(x.a)} \cup {[x EXCEPT !.b = f] : f \in Perm1(x.b)}
    [] x.t = "S" -> {[x EXCEPT !.e = f] : f \in Perm1(x.e)}
    [] OTHER -> {}

\* Group with i >= j (or the whole sequence) is not a re-nesting; filter those out
WellGrouped(x) ==
  CASE x.t = "M" -> /\ Len(x.es) >= 2
                    /\ \A i \in DOMAIN x.es : WellGrouped(x.es[i])
    [] x.t = "F" -> WellGrouped(x.a) /\ WellGrouped(x.b)
    [] x.t = "S" -> WellGrouped(x.e)
    [] OTHER -> TRUE

Init == /\ base \in DOMAIN Bases /\ e = Bases[base] /\ depth = 0
Permute == /\ depth < MaxDepth
           /\ e' \in {f \in Perm1(e) : WellGrouped(f)}
           /\ depth' = depth + 1 /\ base' = base
Spec == Init /\ [][Permute]_vars

\* design level: a permutation step never changes the denotation (generic distribution over 4 names)
PermGraph == MkG(1..4, {<<u, v>> \in (1..4) \X (1..4) : u < v}, {s \in SUBSET (1..4) : Cardinality(s) = 2})
PermModels(seed) == [p \in 0..2 |-> Model(PermGraph, CliqueLatents(PermGraph), Binary(PermGraph), [v \in 1..4 |-> p], seed)]
PermSound == (Check /\ SingleWorld(Bases[base])) => \A s \in Seeds :
                LET W == Bundle(PermModels(s), Dos(e) \cup Dos(Bases[base]))
                    c == CmpAt(W, e, Bases[base])
                IN c.nbad = 0 /\ c.ndef > 0

Emit == PrintT(<<"PERM", ToJson([base |-> base, d |-> depth, e |-> e])>>)
=============================================================================

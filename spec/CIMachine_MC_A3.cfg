SPECIFICATION Spec
CONSTANTS
  Family = "A3"
  Limits <- LimitsA
  PairOrder = "any"
INVARIANT Sound
INVARIANT AtMostOne
INVARIANT Exact
INVARIANT TwoSided
INVARIANT Progress
PROPERTY Monotone
CHECK_DEADLOCK FALSE

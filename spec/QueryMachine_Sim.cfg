SPECIFICATION Spec
CONSTANTS
  N = 4
  Depth = 5
INVARIANT TypeOK
INVARIANT Emit
CONSTRAINT Bound
CHECK_DEADLOCK FALSE

------------------------------- MODULE IDStar -------------------------------
(***************************************************************************)
(* Reference ID* (Shpitser & Pearl) over the term language of Sem.tla:     *)
(* make-cg (parallel worlds, Lemma 24 test, Lemma 25 merge, ancestral      *)
(* restriction) and lines 1-9.  It is a *sound, partial* version: besides  *)
(* the published failure (line 8) it refuses events whose answer cannot be *)
(* written in the term language (two unobserved copies of one variable     *)
(* would need separate summation indices; a summation index would capture  *)
(* a literal subscript).  IDStarMachine.tla model-checks that whenever it  *)
(* answers, the term denotes P(event) in the functional family F.          *)
(*                                                                         *)
(* An atom is [n, s, iv]: variable n, value mark s (1 "-", 2 "+", 0 = the  *)
(* current value of the name, used for summation variables), subscripts iv *)
(* (sequence of <<name, mark>>).  A node of the parallel-worlds graph is   *)
(* <<n, w>> with w the world (set of <<name, mark>>).                      *)
(***************************************************************************)
EXTENDS ID, CF

WorldOfA(a) == ToSet(a.iv)
NodeOfA(a)  == <<a.n, WorldOfA(a)>>
FixedIn(v, w) == \E m \in 0..2 : <<v, m>> \in w
FixedVal(v, w) == (CHOOSE p \in w : p[1] = v)[2]
SeqOfWorld(w) == LET RECURSIVE ord(_)
                     ord(S) == IF S = {} THEN <<>> ELSE LET p == CHOOSE p \in S : \A q \in S : p[1] <= q[1] IN <<p>> \o ord(S \ {p})
                 IN ord(w)

\* injective numeric keys (names <= 6): smaller worlds first
RECURSIVE Pow2(_)
Pow2(k) == IF k = 0 THEN 1 ELSE 2 * Pow2(k - 1)
WorldKey(w) == Cardinality(w) * Pow2(22) + MapThenSumSet(LAMBDA p : Pow2(p[1] * 3 + p[2]), w)
NodeKey(x) == WorldKey(x[2])
RECURSIVE NodesToSeq(_)
NodesToSeq(S) == IF S = {} THEN <<>>
                 ELSE LET x == CHOOSE x \in S : \A y \in S : x[1] < y[1] \/ (x[1] = y[1] /\ NodeKey(x) <= NodeKey(y))
                      IN <<x>> \o NodesToSeq(S \ {x})

\* ---------------------------------------------------------------- make-cg
\* rep: representative of every parallel-worlds node after the merges of Lemma 24/25, built in topological order
EvVal(ev, node) == LET hits == {a \in ev : NodeOfA(a) = node} IN IF hits = {} THEN 3 ELSE (Pick(hits)).s   \* 3 = unknown
RECURSIVE MergeOrder(_, _, _, _, _)
\* state: rep (function on nodes), val (function on representatives: known value mark or 3), bad (inconsistent)
MergeOrder(G, worlds, order, rep, st) ==
  IF order = <<>> THEN [rep |-> rep, val |-> st.val, bad |-> st.bad]
  ELSE
   LET v == Head(order)
       copies == {<<v, w>> : w \in worlds}
       \* two copies are the same random variable: both intervened at the same value, or neither intervened and every
       \* parent pair is one node or attains the same known value
       ParSame(a, b) == \A u \in Pa(G, v) :
                           LET ra == rep[<<u, a[2]>>]  rb == rep[<<u, b[2]>>] IN
                           ra = rb \/ (st.val[ra] # 3 /\ st.val[ra] = st.val[rb])
       Same(a, b) == IF FixedIn(v, a[2]) \/ FixedIn(v, b[2])
                     THEN FixedIn(v, a[2]) /\ FixedIn(v, b[2]) /\ FixedVal(v, a[2]) = FixedVal(v, b[2])
                     ELSE ParSame(a, b)
       RECURSIVE Close(_)
       Close(S) == LET T == S \cup {b \in copies : \E a \in S : Same(a, b) \/ Same(b, a)} IN IF T = S THEN S ELSE Close(T)
       classOf(a) == Close({a})
       newRep == [x \in DOMAIN rep |-> IF x \in copies THEN CHOOSE r \in classOf(x) : \A q \in classOf(x) : NodeKey(r) <= NodeKey(q)
                                          ELSE rep[x]]
       \* the value of a class: the known values of its members must agree
       valsOf(a) == {st.val[b] : b \in classOf(a)} \ {3}
       newVal == [x \in DOMAIN st.val |-> IF x \in copies THEN (IF valsOf(x) = {} THEN 3 ELSE Pick(valsOf(x))) ELSE st.val[x]]
       newBad == st.bad \/ \E a \in copies : Cardinality(valsOf(a)) > 1
   IN MergeOrder(G, worlds, Tail(order), newRep, [val |-> newVal, bad |-> newBad])

MakeCG(G, ev) ==
  LET worlds == {WorldOfA(a) : a \in ev}
      nodes == G.n \X worlds
      val0 == [x \in nodes |-> IF FixedIn(x[1], x[2]) THEN FixedVal(x[1], x[2]) ELSE EvVal(ev, x)]
      m == MergeOrder(G, worlds, TopoMin(G), [x \in nodes |-> x], [val |-> val0, bad |-> FALSE])
      reps == {m.rep[x] : x \in nodes}
      fixed(x) == FixedIn(x[1], x[2])
      \* Lemma 25: a merged node keeps the parents of the preferred copy only (the copy that is its own representative)
      d == {<<m.rep[<<ew[1][1], ew[2]>>], <<ew[1][2], ew[2]>>>> : ew \in {p \in G.d \X worlds : m.rep[<<p[1][2], p[2]>>] = <<p[1][2], p[2]>>}}
           \ {p \in reps \X reps : fixed(p[2]) \/ p[1] = p[2]}
      d2 == {p \in d : ~fixed(p[2])}
      b == {{m.rep[<<e[1], w1>>], m.rep[<<e[2], w2>>]} : e \in {<<u, v>> \in G.n \X G.n : {u, v} \in G.b}, w1 \in worlds, w2 \in worlds}
           \cup {{m.rep[<<v, w1>>], m.rep[<<v, w2>>]} : v \in G.n, w1 \in worlds, w2 \in worlds}
      b2 == {e \in b : Cardinality(e) = 2 /\ \A x \in e : ~fixed(x)}
      evn == {m.rep[NodeOfA(a)] : a \in ev}
      Gp == MkG(reps, d2, b2)
      keep == An(Gp, evn)
  IN [bad |-> m.bad, g |-> SubG(Gp, keep), val |-> m.val, evn |-> evn, fixed |-> {x \in keep : fixed(x)}, rep |-> m.rep]

\* ---------------------------------------------------------------- lines 1-9
Effectiveness0(ev) == \E a \in ev : \E p \in WorldOfA(a) : p[1] = a.n /\ a.s # 0 /\ p[2] # a.s
Tautological(a)    == \E p \in WorldOfA(a) : p[1] = a.n /\ (a.s = 0 \/ p[2] = a.s)

\* names that occur as literal subscripts of the (original) event
LiteralNames(ev) == UNION {{p[1] : p \in WorldOfA(a)} : a \in ev}

RECURSIVE IDStarR(_, _, _)
\* ev: set of atoms; depth: guard against runaway recursion (|V| + 2 levels suffice)
IDStarR(G, ev, depth) ==
  IF ev = {} THEN OneT
  ELSE IF depth = 0 THEN Fail
  ELSE IF Effectiveness0(ev) THEN ZeroT
  ELSE IF \E a \in ev : Tautological(a) THEN IDStarR(G, {a \in ev : ~Tautological(a)}, depth - 1)
  ELSE
   LET cg == MakeCG(G, ev) IN
   IF cg.bad THEN ZeroT
   ELSE
    LET Gp == cg.g
        free == {x \in Gp.n : x \notin cg.fixed /\ cg.val[x] = 3}        \* unobserved, un-intervened nodes: summation indices
        live == Gp.n \ cg.fixed
        comps == Districts(SubG(Gp, live))
        valOf(x) == IF cg.val[x] = 3 THEN 0 ELSE cg.val[x]
        \* expressibility in the term language
        distinctNames == \A x, y \in free : x = y \/ x[1] # y[1]
        \* the subscripts that matter are the intervened nodes that survived the ancestral restriction
        subsAll == {<<x[1], FixedVal(x[1], x[2])>> : x \in cg.fixed}
        noCapture == {x[1] : x \in free} \cap {p[1] : p \in subsAll} = {}
        sumNames == {x[1] : x \in free}
    IN IF ~distinctNames \/ ~noCapture THEN Fail
       ELSE IF Cardinality(comps) > 1 THEN                                             \* line 6
          LET sub(S) == \* every node of S under the values of its parents outside S
                {[n |-> x[1], s |-> valOf(x),
                  iv |-> SeqOfWorld({<<p[1], IF cg.val[p] = 3 THEN 1 ELSE cg.val[p]>> : p \in Pa(Gp, x) \ S})] : x \in S}
              parts == [S \in comps |-> IDStarR(G, sub(S), depth - 1)]
          IN IF \E S \in comps : IsFail(parts[S]) THEN Fail
             ELSE SumT(sumNames, ProdT(SeqOfSet(LAMBDA k : parts[CHOOSE S \in comps : Min({x[1] * 100 + Cardinality(x[2]) : x \in S}) = k],
                                              {Min({x[1] * 100 + Cardinality(x[2]) : x \in S}) : S \in comps})))
       ELSE                                                                            \* lines 7-9
          LET S == live
              subs == subsAll
              evs == {<<x[1], cg.val[x]>> : x \in {y \in S : cg.val[y] # 3}}
              conflict == \E p \in subs : \E q \in subs \cup evs : p[1] = q[1] /\ p[2] # q[2]
              \* a free node whose name is also a subscript would need its own value as subscript: excluded by noCapture
              \* a variable that is intervened on in one world and random (in this component) in another: the published
              \* line 9 would put it on both sides of P_x(...); this version refuses (sound, not complete)
              bothSides == {x[1] : x \in cg.fixed} \cap {y[1] : y \in S} # {}
          IN IF conflict \/ bothSides THEN Fail
             ELSE LET q == NodesToSeq(S) IN
                  SumT(sumNames, PT([i \in DOMAIN q |-> [n |-> q[i][1], s |-> valOf(q[i]), iv |-> SeqOfWorld(subs)]], <<>>, 0))

\* line 0: subscripts that are causally irrelevant to their variable are dropped first (||Y_x||, CF.tla MinRef), so that
\* worlds are canonical; two atoms that become the same variable with different values make the event impossible
MinEvent(G, ev) == {MinRef(G, a) : a \in ev}
ClashAfterMin(G, ev) == \E a, b \in MinEvent(G, ev) : NodeOfA(a) = NodeOfA(b) /\ a.s # 0 /\ b.s # 0 /\ a.s # b.s
IDStarRef(G, ev) == IF ClashAfterMin(G, ev) THEN ZeroT ELSE IDStarR(G, MinEvent(G, ev), Cardinality(G.n) + 3)

\* ---------------------------------------------------------------- IDC* (conditional counterfactuals)
\* Reference IDC* (Shpitser & Pearl, Figure 10), sound and partial like the reference ID* above:
\*   1  ID*(delta) = 0                      -> undefined
\*   2  (G', gamma' and delta') = make-cg(G, gamma and delta)
\*   3  inconsistent                        -> 0
\*   4  some y_x in delta' is separated from gamma' in G' with the edges out of y_x removed, given the other conditions
\*      (rule 2 of the do-calculus in the counterfactual graph): move it into the subscripts of its descendants in gamma'
\*   5  otherwise ID*(gamma' and delta') / ID*(delta')
\* The separation of line 4 conditions on the remaining conditions and on the intervened (constant) nodes.
UndefT == [t |-> "undef"]
IsUndef(e) == e.t = "undef"

RECURSIVE IDCStarR(_, _, _, _)
IDCStarR(G, gam, del, depth) ==
  IF del = {} THEN IDStarRef(G, gam)
  ELSE IF depth = 0 THEN Fail
  ELSE IF IDStarRef(G, del) = ZeroT THEN UndefT                                           \* line 1
  ELSE
   LET mg == {a \in MinEvent(G, gam) : ~Tautological(a)}
       md == {a \in MinEvent(G, del) : ~Tautological(a)}
       ev == mg \cup md
   IN
   IF ClashAfterMin(G, gam \cup del) \/ Effectiveness0(MinEvent(G, gam \cup del)) THEN ZeroT
   ELSE IF md = {} THEN IDStarRef(G, gam)
   ELSE
    LET cg == MakeCG(G, ev) IN                                                             \* line 2
    IF cg.bad THEN ZeroT                                                                   \* line 3
    ELSE
     LET nodeOf(a) == cg.rep[NodeOfA(a)]
         gN == {nodeOf(a) : a \in mg}
         dN == {nodeOf(a) : a \in md}
         gOnly == {a \in mg : nodeOf(a) \notin dN}          \* outcome atoms that the conditions do not already fix
         CfRule2(y) == LET Hy == RemoveOut(cg.g, {y})  Cy == (dN \ {y}) \cup cg.fixed IN
                       \A a \in gOnly : MSepPath(Hy, y, nodeOf(a), Cy \ {nodeOf(a)})
         \* a condition can be moved only if exactly one condition atom is that node
         cands == {y \in dN : Cardinality({a \in md : nodeOf(a) = y}) = 1 /\ CfRule2(y)}
     IN
     \* (the relabelled atoms of make-cg equal the original ones only given the whole event: the new queries are
     \*  built from the original atoms, the counterfactual graph is used for the separation test alone)
     IF gOnly = {} THEN OneT
     ELSE IF cands # {} THEN                                                               \* line 4
        LET y == CHOOSE y \in cands : \A z \in cands : y[1] < z[1] \/ (y[1] = z[1] /\ NodeKey(y) <= NodeKey(z))
            ya == CHOOSE a \in md : nodeOf(a) = y
            touched == {a \in gOnly : y \in An(cg.g, {nodeOf(a)})}
            capture == \E a \in touched : FixedIn(ya.n, WorldOfA(a))
            newG == {IF a \in touched THEN [a EXCEPT !.iv = SeqOfWorld(WorldOfA(a) \cup {<<ya.n, ya.s>>})] ELSE a : a \in gOnly}
            newD == md \ {ya}
        IN IF capture THEN Fail ELSE IDCStarR(G, newG, newD, depth - 1)
     ELSE                                                                                  \* line 5
        LET num == IDStarRef(G, gOnly \cup md)
            den == IDStarRef(G, md)
        IN IF IsFail(num) \/ IsFail(den) THEN Fail ELSE FT(num, den)

IDCStarRef(G, gam, del) == IDCStarR(G, gam, del, Cardinality(del) + 2)
=============================================================================

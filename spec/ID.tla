------------------------------- MODULE ID -------------------------------
(***************************************************************************)
(* Layer 2: reference versions of the identification algorithms over the   *)
(* term language of Sem.tla.                                               *)
(*   IDf      - Shpitser & Pearl's ID (lines 1-7) as a recursive operator; *)
(*              the current distribution is carried as a term, so that     *)
(*              line 6/7 condition the *current* distribution;             *)
(*   TianOK   - the Tian / Huang-Valtorta identifiability criterion, an    *)
(*              independent characterisation of the verdict;               *)
(*   HedgeEx  - brute-force search for a hedge (third characterisation);   *)
(*   IDCf     - Shpitser & Pearl's IDC on top of IDf and true separation.  *)
(***************************************************************************)
EXTENDS Sem, Separation

Fail == [t |-> "fail"]
IsFail(e) == e.t = "fail"

SumT(S, e) == IF IsFail(e) THEN Fail ELSE IF S = {} THEN e ELSE ST(SetToSeq(S), e)
ProdT(es)  == IF \E i \in DOMAIN es : IsFail(es[i]) THEN Fail
              ELSE IF Len(es) = 1 THEN es[1] ELSE MT(es)

ObsJoint(V) == PT(Vars0(V), <<>>, 0)

\* P(v | pred) computed from the current distribution Pe over node set V:
\* (sum over everything except pred and v) / (sum over everything except pred)
CondOf(Pe, V, v, pred) ==
  IF Pe.t = "P" /\ Pe.pa = <<>> /\ \A x \in ToSet(Pe.ch) : x.s = 0 /\ x.iv = <<>>
  THEN PT(<<V0(v)>>, Vars0(pred), Pe.pop)
  ELSE LET rest == V \ (pred \cup {v}) IN
       FT(SumT(rest, Pe), SumT(rest \cup {v}, Pe))

\* map a set to a sequence of terms in increasing node order
SeqOfSet(op(_), S) == LET q == SetToSeq(S) IN [i \in DOMAIN q |-> op(q[i])]

RECURSIVE IDf(_, _, _, _)
IDf(Y, X, Pe, G) ==
  LET V   == G.n
      AnY == An(G, Y)
      W   == (V \ X) \ An(RemoveIn(G, X), Y)
      GX  == SubG(G, V \ X)
      CX  == Districts(GX)
      pi  == TopoMin(G)
  IN IF X = {} THEN SumT(V \ Y, Pe)                                                     \* line 1
     ELSE IF V \ AnY # {} THEN IDf(Y, X \cap AnY, SumT(V \ AnY, Pe), SubG(G, AnY))      \* line 2
     ELSE IF W # {} THEN IDf(Y, X \cup W, Pe, G)                                        \* line 3
     ELSE IF Cardinality(CX) > 1 THEN                                                   \* line 4
        SumT(V \ (Y \cup X),
             ProdT(SeqOfSet(LAMBDA m : IDf(District(GX, m), V \ District(GX, m), Pe, G),
                            {Min(S) : S \in CX})))
     ELSE LET S == Pick(CX) IN
        IF Districts(G) = {V} THEN Fail                                                 \* line 5
        ELSE IF S \in Districts(G)                                                      \* line 6
             THEN SumT(S \ Y, ProdT(SeqOfSet(LAMBDA v : CondOf(Pe, V, v, Before(pi, v)), S)))
        ELSE LET Sp == Pick({D \in Districts(G) : S \subseteq D}) IN                    \* line 7
             IDf(Y, X \cap Sp, ProdT(SeqOfSet(LAMBDA v : CondOf(Pe, V, v, Before(pi, v)), Sp)), SubG(G, Sp))

IDRef(G, X, Y) == IDf(Y, X, ObsJoint(G.n), G)

\* which lines fire, and whether a line 7 came earlier on the same recursion path: the set of <<line, after a line 7>>
\* (structure only).  <<2, TRUE>> marks the inputs on which line 2 prunes a sub-problem that line 7 created.
RECURSIVE IDSteps(_, _, _, _)
IDSteps(Y, X, G, after7) ==
  LET V   == G.n
      AnY == An(G, Y)
      W   == (V \ X) \ An(RemoveIn(G, X), Y)
      GX  == SubG(G, V \ X)
      CX  == Districts(GX)
      here(l) == {<<l, after7>>}
  IN IF X = {} THEN here(1)
     ELSE IF V \ AnY # {} THEN here(2) \cup IDSteps(Y, X \cap AnY, SubG(G, AnY), after7)
     ELSE IF W # {} THEN here(3) \cup IDSteps(Y, X \cup W, G, after7)
     ELSE IF Cardinality(CX) > 1 THEN
        here(4) \cup UNION {IDSteps(District(GX, m), V \ District(GX, m), G, after7) : m \in {Min(S) : S \in CX}}
     ELSE LET S == Pick(CX) IN
        IF Districts(G) = {V} THEN here(5)
        ELSE IF S \in Districts(G) THEN here(6)
        ELSE LET Sp == Pick({D \in Districts(G) : S \subseteq D}) IN here(7) \cup IDSteps(Y, X \cap Sp, SubG(G, Sp), TRUE)
\* line 2 or line 4 (or line 7 again) inside a sub-problem that line 7 created
DeepAfter7(Y, X, G) == \E st \in IDSteps(Y, X, G, FALSE) : st[2] /\ st[1] \in {2, 3, 4, 7}

\* how many times line 7 is applied along one recursion path of ID (structure only; 0 for queries that never reach it):
\* used by the generators to find the inputs on which the current distribution of a line-7 sub-problem is itself the
\* result of a line 7 (these start at 5 nodes)
RECURSIVE L7Depth(_, _, _)
L7Depth(Y, X, G) ==
  LET V   == G.n
      AnY == An(G, Y)
      W   == (V \ X) \ An(RemoveIn(G, X), Y)
      GX  == SubG(G, V \ X)
      CX  == Districts(GX)
  IN IF X = {} THEN 0
     ELSE IF V \ AnY # {} THEN L7Depth(Y, X \cap AnY, SubG(G, AnY))
     ELSE IF W # {} THEN L7Depth(Y, X \cup W, G)
     ELSE IF Cardinality(CX) > 1 THEN Max({L7Depth(District(GX, m), V \ District(GX, m), G) : m \in {Min(S) : S \in CX}})
     ELSE LET S == Pick(CX) IN
        IF Districts(G) = {V} \/ S \in Districts(G) THEN 0
        ELSE LET Sp == Pick({D \in Districts(G) : S \subseteq D}) IN 1 + L7Depth(Y, X \cap Sp, SubG(G, Sp))

\* ---------------------------------------------------------------- Tian / Huang-Valtorta
RECURSIVE TIdent(_, _, _)
\* can Q[C] be computed from Q[T], C subset of T, both bidirected-connected in their induced graphs?
TIdent(G, C, T) == LET A == An(SubG(G, T), C) IN
   IF A = C THEN TRUE ELSE IF A = T THEN FALSE
   ELSE TIdent(G, C, Pick({Tp \in Districts(SubG(G, A)) : C \subseteq Tp}))
TianOK(G, X, Y) == LET D == An(SubG(G, G.n \ X), Y) IN
   \A Dj \in Districts(SubG(G, D)) : TIdent(G, Dj, Pick({Sj \in Districts(G) : Dj \subseteq Sj}))


\* ---------------------------------------------------------------- Tian & Pearl: c-factors and IDENTIFY as terms
\* Q[S] = P(S | do(V \ S)).  Lemma 1: the c-factor of a district T of G from the observational joint
\* and a topological order; Lemma 3: marginalising an ancestral set; Lemma 4: the c-factor of a district
\* Tp of G[Hs] from Q[Hs] (QH a term over Hs) and the order restricted to Hs.
SubOrder(topo, S) == SelectSeq(topo, LAMBDA v : v \in S)
QLemma1(V, T, topo) == ProdT(SeqOfSet(LAMBDA v : PT(<<V0(v)>>, Vars0(Before(topo, v)), 0), T))
\* Q[H^(i)] = sum of QH over the members of Hs after position i
QUpTo(QH, ho, i) == SumT({ho[j] : j \in (i + 1)..Len(ho)}, QH)
QLemma4(QH, Hs, Tp, topo) ==
  LET ho == SubOrder(topo, Hs) IN
  ProdT(SeqOfSet(LAMBDA v : LET i == PosOf(ho, v) IN FT(QUpTo(QH, ho, i), QUpTo(QH, ho, i - 1)), Tp))

RECURSIVE TianIdentify(_, _, _, _, _)
\* Q[C] from QT = Q[T], C subset of T, both single districts of their induced subgraphs; Fail if not identifiable
TianIdentify(G, C, T, QT, topo) ==
  LET A == An(SubG(G, T), C) IN
  IF A = C THEN SumT(T \ C, QT)
  ELSE IF A = T THEN Fail
  ELSE LET Tp == Pick({D \in Districts(SubG(G, A)) : C \subseteq D})
           QA == SumT(T \ A, QT)
       IN TianIdentify(G, C, Tp, QLemma4(QA, A, Tp, topo), topo)

\* all (T, C) pairs meeting the precondition of IDENTIFY
TianPairs(G) == {<<T, C>> \in Districts(G) \X (SUBSET G.n) :
                   C # {} /\ C \subseteq T /\ Districts(SubG(G, C)) = {C}}

\* ---------------------------------------------------------------- hedges by brute force
\* F is an R-rooted C-forest of G: a single district in G[F], every node has at most one child in
\* the forest's edge set -- equivalently (Shpitser-Pearl) there is a sub-forest; it suffices to ask
\* that G[F] is bidirected-connected and that every node of F is an ancestor of R within G[F],
\* where R is the set of nodes of F without children in G[F] ... the root set is then forced.
RootsOf(G, F) == {v \in F : Ch(SubG(G, F), v) = {}}
IsCForestSet(G, F, R) == /\ F # {} /\ R # {} /\ R \subseteq F
                         /\ Districts(SubG(G, F)) = {F}
                         /\ An(SubG(G, F), R) = F
\* a hedge for P(y | do x): R subset of An(Y) in G with edges into X removed, F' subset of F,
\* F meets X, F' misses X, both R-rooted (edge subgraphs may drop edges, so "An(R) within F = F"
\* is the right reading of "R-rooted forest exists inside G[F]")
HedgeEx(G, X, Y) ==
  LET AY == An(RemoveIn(G, X), Y) IN
  \E F \in SUBSET G.n : \E Fp \in SUBSET F : \E R \in SUBSET Fp :
     /\ R # {} /\ R \subseteq AY
     /\ F \cap X # {} /\ Fp \cap X = {}
     /\ IsCForestSet(G, F, R) /\ IsCForestSet(G, Fp, R)

\* ---------------------------------------------------------------- IDC
\* rule 2 of the do-calculus: z can be moved from the conditions to the treatments when
\* (Y indep z | X, Z \ z) in G with edges into X and out of z removed
Rule2(G, X, Y, Z, z) ==
  LET GH == RemoveOut(RemoveIn(G, X), {z}) IN
  \A y \in Y : MSepPath(GH, y, z, (X \cup Z) \ {z})

\* the final ID call of IDC: <<treatments, outcomes>> after every applicable rule-2 exchange
RECURSIVE IDCFinal(_, _, _, _)
IDCFinal(G, X, Y, Z) ==
  IF \E z \in Z : Rule2(G, X, Y, Z, z)
  THEN LET z == Min({z \in Z : Rule2(G, X, Y, Z, z)}) IN IDCFinal(G, X \cup {z}, Y, Z \ {z})
  ELSE <<X, Y \cup Z>>

RECURSIVE IDCf(_, _, _, _)
IDCf(G, X, Y, Z) ==
  IF \E z \in Z : Rule2(G, X, Y, Z, z)
  THEN LET z == Min({z \in Z : Rule2(G, X, Y, Z, z)}) IN IDCf(G, X \cup {z}, Y, Z \ {z})
  ELSE LET pp == IF X = {} THEN SumT(G.n \ (Y \cup Z), ObsJoint(G.n)) ELSE IDRef(G, X, Y \cup Z) IN
       IF IsFail(pp) THEN Fail
       ELSE IF Z = {} THEN pp ELSE FT(pp, SumT(Y, pp))


\* ---------------------------------------------------------------- transport (surrogate outcomes, Tikka & Karvanen)
\* the nodes at which source domain (Z, W) may differ from the target: the derived selection diagram
\* (descendants of the experiments that are not surrogate outcomes, and the members of the districts of the
\*  surrogate outcomes that are not ancestors of W once the edges into Z are removed)
TransportNodes(G, Z, W) ==
  (De(G, Z) \ W) \cup
  (UNION {D \in Districts(G) : D \cap W # {}} \ An(RemoveIn(G, Z), W))
DomainConfigs(G) == {<<Z, W>> \in (SUBSET G.n) \X (SUBSET G.n) : W # {} /\ Z \cap W = {}}

\* vocabulary of C06 for transport estimands: population-tagged terms only; target terms (pop 0) are
\* observational; a term of domain k carries one common subscript set, a subset of Z_k; zs[k] = Z_k
RECURSIVE TransportVocab(_, _, _)
TransportVocab(e, V, zs) ==
  CASE e.t = "P" -> /\ \A v \in TermVars(e) : v.s = 0 /\ v.n \in V /\ IvNames(v) \subseteq V
                    /\ Cardinality({ToSet(v.iv) : v \in TermVars(e)}) <= 1
                    /\ \A v \in TermVars(e) : \A i \in ToSet(v.iv) : i[2] # 2
                    /\ IF e.pop = 0 THEN \A v \in TermVars(e) : v.iv = <<>>
                       ELSE e.pop \in DOMAIN zs /\ \A v \in TermVars(e) : IvNames(v) \subseteq zs[e.pop]
    [] e.t = "M" -> \A i \in DOMAIN e.es : TransportVocab(e.es[i], V, zs)
    [] e.t = "F" -> TransportVocab(e.a, V, zs) /\ TransportVocab(e.b, V, zs)
    [] e.t = "S" -> ToSet(e.r) \subseteq V /\ TransportVocab(e.e, V, zs)
    [] e.t = "Q" -> FALSE
    [] OTHER -> TRUE

\* ---------------------------------------------------------------- queries of a graph
Queries(G)  == {<<X, Y>> \in (SUBSET G.n) \X (SUBSET G.n) : X # {} /\ Y # {} /\ X \cap Y = {}}
CQueries(G) == {<<X, Y, Z>> \in (SUBSET G.n) \X (SUBSET G.n) \X (SUBSET G.n) :
                  Y # {} /\ Z # {} /\ X \cap Y = {} /\ X \cap Z = {} /\ Y \cap Z = {}}

\* vocabulary of C06 for ID / IDC: plain observational terms over the graph's nodes
RECURSIVE ObsOnly(_, _)
ObsOnly(e, V) ==
  CASE e.t = "P" -> /\ e.pop = 0
                    /\ \A v \in TermVars(e) : v.s = 0 /\ v.iv = <<>> /\ v.n \in V
    [] e.t = "M" -> \A i \in DOMAIN e.es : ObsOnly(e.es[i], V)
    [] e.t = "F" -> ObsOnly(e.a, V) /\ ObsOnly(e.b, V)
    [] e.t = "S" -> ToSet(e.r) \subseteq V /\ ObsOnly(e.e, V)
    [] e.t = "Q" -> FALSE
    [] OTHER -> TRUE
=============================================================================

---------------------------- MODULE MixedGraph ----------------------------
(***************************************************************************)
(* Layer 1: mixed graphs (directed + bidirected edges) and the surgery     *)
(* operations of y0.graph.NxMixedGraph, defined purely set-theoretically.  *)
(* A graph is a record [n |-> nodes, d |-> {<<u,v>>}, b |-> {{u,v}}].      *)
(* Nodes are integers (latents introduced by Canon share the name space).  *)
(***************************************************************************)
EXTENDS Naturals, FiniteSets, Sequences, FiniteSetsExt

MkG(n, d, b) == [n |-> n, d |-> d, b |-> b]

Pa(G, v)  == {u \in G.n : <<u, v>> \in G.d}
Ch(G, v)  == {w \in G.n : <<v, w>> \in G.d}
Sib(G, v) == {w \in G.n : {v, w} \in G.b /\ w # v}
PaS(G, S) == UNION {Pa(G, v) : v \in S}
ChS(G, S) == UNION {Ch(G, v) : v \in S}

WellFormed(G) ==
  /\ \A e \in G.d : e[1] \in G.n /\ e[2] \in G.n /\ e[1] # e[2]
  /\ \A e \in G.b : e \subseteq G.n /\ Cardinality(e) = 2

\* ---------------------------------------------------------------- surgery
SubG(G, S)        == MkG(G.n \cap S,
                         {e \in G.d : e[1] \in S /\ e[2] \in S},
                         {e \in G.b : e \subseteq S})
RemoveIn(G, S)    == MkG(G.n, {e \in G.d : e[2] \notin S}, {e \in G.b : e \cap S = {}})
RemoveOut(G, S)   == MkG(G.n, {e \in G.d : e[1] \notin S}, G.b)
RemoveNodes(G, S) == SubG(G, G.n \ S)
\* y0's `intervene` relabels every node v as v@S; modulo that relabelling the
\* result is the mutilated graph.
Intervene(G, S)   == RemoveIn(G, S)

\* ---------------------------------------------------------------- closures
RECURSIVE AnR(_, _)
AnR(G, S) == LET T == S \cup PaS(G, S) IN IF T = S THEN S ELSE AnR(G, T)
An(G, S) == AnR(G, S \cap G.n)

RECURSIVE DeR(_, _)
DeR(G, S) == LET T == S \cup ChS(G, S) IN IF T = S THEN S ELSE DeR(G, T)
De(G, S) == DeR(G, S \cap G.n)

RECURSIVE DistR(_, _)
DistR(G, S) == LET T == S \cup UNION {Sib(G, v) : v \in S} IN IF T = S THEN S ELSE DistR(G, T)
District(G, v) == DistR(G, {v})
Districts(G)   == {District(G, v) : v \in G.n}

\* strongly connected component of v in the directed part
Scc(G, v) == An(G, {v}) \cap De(G, {v})

IsAcyclic(G) == \A v \in G.n : v \notin An(G, Pa(G, v))

\* ---------------------------------------------------------------- neighbourhoods
Pillow(G, S)  == PaS(G, S) \ S
Blanket(G, S) == (PaS(G, S) \cup ChS(G, S) \cup PaS(G, ChS(G, S))) \ S
\* docstring of moralize: all co-parents (directed parents of a common node) married
MoralLinks(G) == {e \in SUBSET G.n : Cardinality(e) = 2 /\ \E c \in G.n : e \subseteq Pa(G, c)}
Moralize(G)   == MkG(G.n, G.d, G.b \cup MoralLinks(G))
\* disorient: a simple undirected graph over the same nodes (edge set of 2-sets)
Disorient(G)  == [n |-> G.n, e |-> G.b \cup {{e[1], e[2]} : e \in G.d}]

\* ---------------------------------------------------------------- further documented helpers of y0.graph
\* (not in the list of C14; replayed as diagnostics)
IntervenedAncestors(G, X, Y) == An(RemoveIn(G, X), Y)
NoEffectOnOutcomes(G, X, Y)  == (G.n \ X) \ IntervenedAncestors(G, X, Y)
\* docstring: a treatment is a-fixable if it has exactly one descendant (itself) in its district
AFixable(G, v) == Cardinality(District(G, v) \cap De(G, {v})) = 1
\* p-fixable: none of its children is in its district
PFixable(G, v) == District(G, v) \cap Ch(G, v) = {}

\* ---------------------------------------------------------------- orders
IsPerm(seq, S) == /\ Len(seq) = Cardinality(S)
                  /\ {seq[i] : i \in 1..Len(seq)} = S
PosOf(seq, v) == CHOOSE i \in 1..Len(seq) : seq[i] = v
IsTopo(G, seq) == /\ IsPerm(seq, G.n)
                  /\ \A e \in G.d : PosOf(seq, e[1]) < PosOf(seq, e[2])
\* pre: the prefix of the order strictly before the first member of S
PreOf(seq, S) == LET hit == {i \in 1..Len(seq) : seq[i] \in S} IN
                 IF hit = {} THEN seq ELSE SubSeq(seq, 1, Min(hit) - 1)
\* set of nodes before v in the order
Before(seq, v) == {seq[i] : i \in 1..(PosOf(seq, v) - 1)}

\* all topological orders (small graphs only)
RECURSIVE TopoOrdersR(_, _)
TopoOrdersR(G, done) ==
  IF done = G.n THEN {<<>>}
  ELSE UNION {{<<v>> \o t : t \in TopoOrdersR(G, done \cup {v})} :
              v \in {w \in G.n \ done : Pa(G, w) \subseteq done}}
TopoOrders(G) == TopoOrdersR(G, {})
\* a deterministic choice (smallest available node first)
RECURSIVE TopoMinR(_, _)
TopoMinR(G, done) ==
  IF done = G.n THEN <<>>
  ELSE LET v == Min({w \in G.n \ done : Pa(G, w) \subseteq done}) IN
       <<v>> \o TopoMinR(G, done \cup {v})
TopoMin(G) == TopoMinR(G, {})

\* ---------------------------------------------------------------- directed paths
\* nodes on simple directed paths s -> ... -> t with s in Src, t in Tgt, s # t
RECURSIVE SimplePathNodes(_, _, _, _)
SimplePathNodes(G, v, t, vis) ==   \* union of node sets of simple paths v..t avoiding vis
  IF v = t THEN {{t}}
  ELSE UNION {{{v} \cup p : p \in SimplePathNodes(G, w, t, vis \cup {w})} : w \in Ch(G, v) \ vis}
NodesOnDirectedPaths(G, Src, Tgt) ==
  UNION {UNION SimplePathNodes(G, s, t, {s}) : <<s, t>> \in {p \in Src \X Tgt : p[1] # p[2]}}

\* ---------------------------------------------------------------- enumeration of graph families
Pairs(N)   == {<<u, v>> \in (1..N) \X (1..N) : u # v}
UPairs(N)  == {e \in SUBSET (1..N) : Cardinality(e) = 2}
AllMixed(N) == {MkG(1..N, d, b) : d \in SUBSET Pairs(N), b \in SUBSET UPairs(N)}
AllADMG(N)  == {G \in AllMixed(N) : IsAcyclic(G)}
\* ADMGs whose node numbering is already topological (one representative per
\* relabelling class of the directed part is enough for many checks)
FwdPairs(N) == {<<u, v>> \in (1..N) \X (1..N) : u < v}
OrderedADMG(N) == {MkG(1..N, d, b) : d \in SUBSET FwdPairs(N), b \in SUBSET UPairs(N)}

\* ---------------------------------------------------------------- algebraic self-checks (used by MC_Graph)
LawPartition(G) == /\ UNION Districts(G) = G.n
                   /\ \A A, B \in Districts(G) : A = B \/ A \cap B = {}
LawClosure(G, S) == /\ S \cap G.n \subseteq An(G, S)
                    /\ An(G, An(G, S)) = An(G, S)
                    /\ De(G, De(G, S)) = De(G, S)
                    /\ \A v \in G.n : (v \in An(G, S)) <=> (De(G, {v}) \cap S # {})
LawSurgery(G, S) == /\ SubG(G, S).n = S \cap G.n
                    /\ RemoveIn(G, S).n = G.n /\ RemoveOut(G, S).n = G.n
                    /\ RemoveNodes(G, S).n = G.n \ S
                    /\ \A v \in S \cap G.n : Pa(RemoveIn(G, S), v) = {} /\ Sib(RemoveIn(G, S), v) = {}
                    /\ \A v \in S \cap G.n : Ch(RemoveOut(G, S), v) = {}
                    /\ WellFormed(SubG(G, S)) /\ WellFormed(RemoveIn(G, S))
                    /\ WellFormed(RemoveOut(G, S)) /\ WellFormed(RemoveNodes(G, S))
=============================================================================

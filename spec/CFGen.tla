-------------------------------- MODULE CFGen --------------------------------
(***************************************************************************)
(* Generator of counterfactual inputs: every graph of a family with the    *)
(* fixed, deterministic family of events over its nodes (conjunctions of   *)
(* at most MaxAtoms atoms 'V under subscripts S takes value v', at most    *)
(* MaxIv subscripts per atom).  One line per graph.                        *)
(***************************************************************************)
EXTENDS CF, Families, Json, TLC

CONSTANTS Family, RndN, RndK, MaxAtoms, MaxIv, Reflexive, NNodes,
          Chains   \* also print the graph-dependent merge-chain events (CF.tla MergeChainEvents)
VARIABLES g, phase
vars == <<g, phase>>

\* the event family depends only on the node set: it is printed once (g = the empty graph on 1..NNodes)
Init == g \in GraphFamily(Family, RndN, RndK) \cup {MkG(1..NNodes, {}, {})} /\ phase = "chosen"
Run == /\ phase = "chosen" /\ phase' = "done" /\ g' = g
       /\ PrintT(<<"CFG", ToJson([n |-> g.n, d |-> g.d, b |-> g.b])>>)
       /\ (Chains /\ Cardinality(g.n) = NNodes) =>
             PrintT(<<"CFM", ToJson([n |-> g.n, d |-> g.d, b |-> g.b,
                                     evs |-> {SetToSeqBy(S) : S \in MergeChainEvents(g)}])>>)
       /\ (g = MkG(1..NNodes, {}, {})) =>
             PrintT(<<"CFE", ToJson({SetToSeqBy(S) : S \in EventsOn(1..NNodes, MaxAtoms, MaxIv, Reflexive)})>>)
Spec == Init /\ [][Run]_vars
=============================================================================

---------------------------- MODULE Separation ----------------------------
(***************************************************************************)
(* Layer 1: separation in mixed graphs, three independent definitions.     *)
(*  MSepPath  - no m-connecting simple path (textbook m-separation);        *)
(*  DSepMoral - d-separation in the canonical DAG (every bidirected edge    *)
(*              replaced by a fresh latent common parent) decided by the    *)
(*              ancestral-moral-graph criterion;                            *)
(*  SigmaSep  - Forre & Mooij sigma-separation with the coarsest sigma      *)
(*              (strongly connected components), decided by reachability    *)
(*              over (node, arrival mark) so that walks are covered.        *)
(* MC_Sep checks MSepPath = DSepMoral = SigmaSep on every ADMG <= 4 nodes.  *)
(***************************************************************************)
EXTENDS MixedGraph

\* ------------------------------------------------------------ m-separation by paths
\* kinds of an edge between v and w, seen from v
Kinds(G, v, w) == (IF <<v, w>> \in G.d THEN {"out"} ELSE {})
            \cup  (IF <<w, v>> \in G.d THEN {"in"} ELSE {})
            \cup  (IF {v, w} \in G.b THEN {"bi"} ELSE {})
HeadAtNear(k) == k \in {"in", "bi"}     \* arrowhead at v (the near end)
HeadAtFar(k)  == k \in {"out", "bi"}    \* arrowhead at w (the far end)

RECURSIVE PConn(_, _, _, _, _, _, _)
\* standing on v (reached with/without an arrowhead into v); can t be reached by an open simple path?
PConn(G, C, AnC, t, v, arrHead, vis) ==
  IF v = t THEN TRUE
  ELSE \E w \in G.n \ vis : \E k \in Kinds(G, v, w) :
         /\ (IF arrHead /\ HeadAtNear(k) THEN v \in AnC ELSE v \notin C)
         /\ PConn(G, C, AnC, t, w, HeadAtFar(k), vis \cup {w})

MConnPath(G, a, b, C) ==
  \E w \in G.n \ {a} : \E k \in Kinds(G, a, w) :
      PConn(G, C, An(G, C), b, w, HeadAtFar(k), {a, w})
MSepPath(G, a, b, C) == ~MConnPath(G, a, b, C)

\* ------------------------------------------------------------ canonical DAG + moralisation
Lid(e) == 100 + 10 * Min(e) + Max(e)          \* name of the latent of bidirected edge e
Canon(G) == [n |-> G.n \cup {Lid(e) : e \in G.b},
             d |-> G.d \cup UNION {{<<Lid(e), v>> : v \in e} : e \in G.b},
             b |-> {}]

RECURSIVE ReachU(_, _, _)
\* reachability in an undirected edge set E (set of 2-sets) restricted to nodes in Allowed
ReachU(E, S, Allowed) ==
  LET T == S \cup {w \in Allowed : \E v \in S : {v, w} \in E} IN
  IF T = S THEN S ELSE ReachU(E, T, Allowed)

DSepMoralDag(D, a, b, C) ==
  LET A   == An(D, {a, b} \cup C)
      DA  == SubG(D, A)
      E   == {{e[1], e[2]} : e \in DA.d} \cup MoralLinks(DA)
  IN  b \notin ReachU(E, {a}, A \ C)
DSepMoral(G, a, b, C) == DSepMoralDag(Canon(G), a, b, C)

\* The shortcut y0 documents for its implementation: ancestral ADMG, marry directed co-parents,
\* disorient.  (Not a definition of separation; kept to *name* the deviation, see DESIGN 5.2.)
DSepDirectedMoralOnly(G, a, b, C) ==
  LET A  == An(G, {a, b} \cup C)
      GA == SubG(G, A)
      E  == Disorient(Moralize(GA)).e
  IN  b \notin ReachU(E, {a}, A \ C)

\* ------------------------------------------------------------ sigma-separation (walk based)
\* marks of arrival: "H" arrowhead into the node, "Ts" tail at the node with the edge staying
\* inside the node's strongly connected component, "Td" tail with the edge leaving it.
\* A step v -k-> w: mark *leaving* v is lv, mark *arriving* at w is aw.
LeaveMark(G, v, w, k) == IF HeadAtNear(k) THEN "H"
                         ELSE IF w \in Scc(G, v) THEN "Ts" ELSE "Td"
ArriveMark(G, v, w, k) == IF HeadAtFar(k) THEN "H"
                          ELSE IF v \in Scc(G, w) THEN "Ts" ELSE "Td"   \* k = "in": w -> v, tail at w
\* is the passage through v (arrived with mark arr, leaving with mark lv) sigma-open given C?
SOpen(v, arr, lv, C, AnC) ==
  IF arr = "H" /\ lv = "H" THEN v \in AnC
  ELSE (v \notin C) \/ (arr # "Td" /\ lv # "Td")

RECURSIVE SReach(_, _, _, _)
\* S: set of <<node, arrival mark>> reached by sigma-open walks from a
SReach(G, C, AnC, S) ==
  LET T == S \cup {<<w, ArriveMark(G, p[1], w, k)>> :
                     <<p, w, k>> \in {q \in S \X G.n \X {"out", "in", "bi"} :
                        /\ q[3] \in Kinds(G, q[1][1], q[2])
                        /\ SOpen(q[1][1], q[1][2], LeaveMark(G, q[1][1], q[2], q[3]), C, AnC)}}
  IN IF T = S THEN S ELSE SReach(G, C, AnC, T)

SigmaConn(G, a, b, C) ==
  /\ a \notin C /\ b \notin C
  /\ LET S0 == {<<w, ArriveMark(G, a, w, k)>> : <<w, k>> \in
                   {q \in G.n \X {"out", "in", "bi"} : q[2] \in Kinds(G, a, q[1])}}
     IN \E p \in SReach(G, C, An(G, C), S0) : p[1] = b
SigmaSep(G, a, b, C) == ~SigmaConn(G, a, b, C)

Adjacent(G, a, b) == Kinds(G, a, b) # {}

\* ------------------------------------------------------------ named deviation: y0's path criterion
\* Literal transcription of y0.algorithm.separation.sigma_separation (simple paths of the
\* disoriented graph, per-triple rules, one-step "detour" through a neighbour).  It is NOT a
\* definition of separation: a collider is opened only by a conditioned node at directed distance
\* <= 1.  It exists so that a failing input can be attributed to this known deviation
\* (impl = SigmaY0 # ideal) instead of being keyed by the input itself (DESIGN 5.2).
HasEither(G, u, v) == <<u, v>> \in G.d \/ {u, v} \in G.b
Dir(G, u, v) == <<u, v>> \in G.d
Nbr(G, v) == {w \in G.n \ {v} : Kinds(G, v, w) # {}}
Y0Collider(G, l, m, r, C) == HasEither(G, l, m) /\ HasEither(G, r, m) /\ m \in C
Y0Left(G, l, m, r, C)  == Dir(G, m, l) /\ HasEither(G, r, m) /\ (m \notin C \/ m \in Scc(G, l))
Y0Right(G, l, m, r, C) == HasEither(G, l, m) /\ Dir(G, m, r) /\ (m \notin C \/ m \in Scc(G, r))
Y0Fork(G, l, m, r, C)  == Dir(G, m, l) /\ Dir(G, m, r) /\ (m \notin C \/ (m \in Scc(G, l) /\ m \in Scc(G, r)))
Y0Helper(G, l, m, r, C) == Y0Collider(G, l, m, r, C) \/ Y0Left(G, l, m, r, C)
                           \/ Y0Right(G, l, m, r, C) \/ Y0Fork(G, l, m, r, C)
Y0Triple(G, l, m, r, C) ==
  \/ Y0Helper(G, l, m, r, C)
  \/ \E n \in Nbr(G, m) : Y0Helper(G, l, m, n, C) /\ Y0Helper(G, m, n, m, C) /\ Y0Helper(G, n, m, r, C)
RECURSIVE Y0Path(_, _, _, _, _, _)
Y0Path(G, C, t, prev, cur, vis) ==
  IF cur = t THEN TRUE
  ELSE \E w \in Nbr(G, cur) \ vis : Y0Triple(G, prev, cur, w, C) /\ Y0Path(G, C, t, cur, w, vis \cup {w})
SigmaY0Conn(G, a, b, C) == /\ a \notin C /\ b \notin C
                           /\ \E w \in Nbr(G, a) : Y0Path(G, C, b, a, w, {a, w})
SigmaY0Sep(G, a, b, C) == ~SigmaY0Conn(G, a, b, C)


\* ------------------------------------------------------------ the verdict table of a graph
Triples(G) == {t \in G.n \X G.n \X SUBSET G.n : t[1] < t[2] /\ t[1] \notin t[3] /\ t[2] \notin t[3]}
SepTable(G) == {t \in Triples(G) : MSepPath(G, t[1], t[2], t[3])}

\* ------------------------------------------------------------ implied conditional independencies (C15)
\* smallest size of a separating set of the pair, 99 if none
MinSize(G, T, a, b) ==
  LET sizes == {Cardinality(t[3]) : t \in {s \in T : s[1] = a /\ s[2] = b}} IN
  IF sizes = {} THEN 99 ELSE Min(sizes)
MinSizes(G, T) == {<<p[1], p[2], MinSize(G, T, p[1], p[2])>> :
                     p \in {q \in G.n \X G.n : q[1] < q[2]}}
=============================================================================

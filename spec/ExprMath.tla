------------------------------ MODULE ExprMath ------------------------------
(***************************************************************************)
(* The meaning of a math term of the expression calculator (ExprCalc.tla)  *)
(* and the reference rewrites; shared by the machine and by the trace      *)
(* validator.  See ExprCalc.tla for the algebra.                           *)
(***************************************************************************)
EXTENDS Sem

A(p)        == [op |-> "atom", p |-> p]
IsAtom(x)   == x.op = "atom" /\ x.p.t = "P"

\* ---------------------------------------------------------------- meaning
RECURSIVE Math(_)
Math(x) ==
  CASE x.op = "atom" -> x.p
    [] x.op = "one"  -> OneT
    [] x.op = "zero" -> ZeroT
    [] x.op \in {"mul", "rmul"} -> MT(<<Math(x.a), Math(x.b)>>)
    [] x.op \in {"div", "rdiv"} -> FT(Math(x.a), Math(x.b))
    [] x.op = "marg" -> ST(x.r, Math(x.a))
    \* conditioning on r: divide by the marginal over every other free random variable (the value of an
    \* intervention subscript is a parameter of the distribution, not one of its variables)
    [] x.op = "cond" -> LET e == Math(x.a)  rest == RandFree(e) \ ToSet(x.r) IN
                        IF rest = {} THEN FT(e, e) ELSE FT(e, ST(SetToSeq(rest), e))
    [] x.op = "nmarg" -> LET e == Math(x.a) IN FT(e, ST(x.r, e))
    [] x.op \in {"fsimp", "ssimp", "contract", "rcontract", "canon", "pp", "chain", "fexp", "bexp"} -> Math(x.a)

\* ---------------------------------------------------------------- named deviation (DESIGN 5.2)
\* y0's Expression.conditional takes "all other variables" from every name that occurs in the object,
\* including names already bound by an inner sum and the names of intervention subscripts (a bare
\* probability excludes the subscripts).  DevMath is Math with that reading of cond; a calculator record
\* that disagrees with Math but agrees with DevMath is attributed to the known finding by call site.
RECURSIVE AllOcc(_)
AllOcc(e) ==
  CASE e.t = "P" -> {v.n : v \in TermVars(e)} \cup UNION {IvNames(v) : v \in TermVars(e)}
    [] e.t = "M" -> UNION {AllOcc(e.es[i]) : i \in DOMAIN e.es}
    [] e.t = "F" -> AllOcc(e.a) \cup AllOcc(e.b)
    [] e.t = "S" -> AllOcc(e.e) \cup ToSet(e.r)
    [] e.t = "Q" -> ToSet(e.dom) \cup ToSet(e.cod)
    [] OTHER -> {}
RECURSIVE DevMathM(_, _)
\* mode "p": a term that is a single probability is treated like y0's Probability.conditional (subscripts excluded);
\* mode "e": like Expression.conditional (every name) - the real object may be a product although its meaning is one term
DevMathM(x, mode) ==
  CASE x.op = "atom" -> x.p
    [] x.op = "one"  -> OneT
    [] x.op = "zero" -> ZeroT
    [] x.op \in {"mul", "rmul"} -> MT(<<DevMathM(x.a, mode), DevMathM(x.b, mode)>>)
    [] x.op \in {"div", "rdiv"} -> FT(DevMathM(x.a, mode), DevMathM(x.b, mode))
    [] x.op = "marg" -> ST(x.r, DevMathM(x.a, mode))
    [] x.op = "cond" -> LET e == DevMathM(x.a, mode)
                            occ == IF e.t = "P" /\ mode = "p" THEN {v.n : v \in {w \in TermVars(e) : w.s = 0}} ELSE AllOcc(e)
                            rest == occ \ ToSet(x.r)
                        IN IF rest = {} THEN FT(e, e) ELSE FT(e, ST(SetToSeq(rest), e))
    [] x.op = "nmarg" -> LET e == DevMathM(x.a, mode) IN FT(e, ST(x.r, e))
    [] x.op \in {"fsimp", "ssimp", "contract", "rcontract", "canon", "pp", "chain", "fexp", "bexp"} -> DevMathM(x.a, mode)
DevMath(x) == DevMathM(x, "p")
DevMathE(x) == DevMathM(x, "e")

\* a value mark (+x / -x) on a variable of a distribution; conditioning such terms is outside the
\* family (statement and docstrings are silent about summing over a variable that is pinned to a value)
RECURSIVE HasMarks(_)
HasMarks(e) == CASE e.t = "P" -> \E v \in TermVars(e) : v.s # 0
                 [] e.t = "M" -> \E i \in DOMAIN e.es : HasMarks(e.es[i])
                 [] e.t = "F" -> HasMarks(e.a) \/ HasMarks(e.b)
                 [] e.t = "S" -> HasMarks(e.e)
                 [] OTHER -> FALSE

\* names whose values the term depends on
MFree(x) == RandFree(Math(x))

\* ---------------------------------------------------------------- reference rewrites (design level)
\* chain rule in the order given by the sequence ch:  prod_i P(ch_i | ch_{i+1..}, pa)
RefChain(p, ch) == MT([i \in DOMAIN ch |-> PT(<<ch[i]>>, SubSeq(ch, i + 1, Len(ch)) \o p.pa, p.pop)])
RefFrac(p)  == IF p.pa = <<>> THEN p ELSE FT(PT(p.ch \o p.pa, <<>>, p.pop), PT(p.pa, <<>>, p.pop))
RefBayes(p) == IF p.pa = <<>> THEN p
               ELSE LET j == PT(p.ch \o p.pa, <<>>, p.pop) IN FT(j, ST([i \in DOMAIN p.ch |-> p.ch[i].n], j))
Perms(s) == {q \in [DOMAIN s -> DOMAIN s] : \A i, j \in DOMAIN s : q[i] = q[j] => i = j}


\* ---------------------------------------------------------------- predicates used by the trace validator
\* chain expansion yields only single-child conditional factors (C13)
ChainShape(e) == \/ e.t = "P" /\ Len(e.ch) = 1
                 \/ e.t = "M" /\ \A i \in DOMAIN e.es : e.es[i].t = "P" /\ Len(e.es[i].ch) = 1

RECURSIVE HasDiv(_)
HasDiv(e) == CASE e.t = "F" -> TRUE
               [] e.t = "M" -> \E i \in DOMAIN e.es : HasDiv(e.es[i])
               [] e.t = "S" -> HasDiv(e.e)
               [] OTHER -> FALSE
IsConst(e) == e.t \in {"1", "0"}
\* the family of C12's object-equality clause: every division has division-free, non-constant operands
\* and is not itself a factor of a product
RECURSIVE Unnested(_, _)
Unnested(e, inProduct) ==
  CASE e.t = "F" -> ~inProduct /\ ~HasDiv(e.a) /\ ~HasDiv(e.b) /\ ~IsConst(e.a) /\ ~IsConst(e.b)
                    /\ Unnested(e.a, FALSE) /\ Unnested(e.b, FALSE)
    [] e.t = "M" -> \A i \in DOMAIN e.es : Unnested(e.es[i], TRUE)
    [] e.t = "S" -> Unnested(e.e, FALSE)
    [] OTHER -> TRUE
\* the probability builders list the variables of either side of the bar in name order; objects with another
\* order (produced e.g. by uncondition()) cannot be written with the builders and are outside the
\* object-equality family of C12
RECURSIVE BuilderOrdered(_)
BuilderOrdered(e) ==
  CASE e.t = "P" -> /\ \A i \in 1..(Len(e.ch) - 1) : e.ch[i].n < e.ch[i + 1].n
                    /\ \A i \in 1..(Len(e.pa) - 1) : e.pa[i].n < e.pa[i + 1].n
    [] e.t = "M" -> \A i \in DOMAIN e.es : BuilderOrdered(e.es[i])
    [] e.t = "F" -> BuilderOrdered(e.a) /\ BuilderOrdered(e.b)
    [] e.t = "S" -> BuilderOrdered(e.e)
    [] OTHER -> TRUE
\* each distribution mentions a variable name at most once (C12's family)
RECURSIVE NamesOnce(_)
NamesOnce(e) ==
  CASE e.t = "P" -> Cardinality({v.n : v \in TermVars(e)}) = Len(e.ch) + Len(e.pa)
    [] e.t = "M" -> \A i \in DOMAIN e.es : NamesOnce(e.es[i])
    [] e.t = "F" -> NamesOnce(e.a) /\ NamesOnce(e.b)
    [] e.t = "S" -> NamesOnce(e.e)
    [] OTHER -> TRUE
=============================================================================

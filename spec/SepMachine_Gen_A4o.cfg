SPECIFICATION Spec
CONSTANTS
  Family = "A4o"
  RndN = 5
  RndK = 8
  Grows = FALSE
INVARIANT Emit
CHECK_DEADLOCK FALSE

--------------------------------- MODULE CF ---------------------------------
(***************************************************************************)
(* Layer 1/2 for counterfactuals: events, their probability, the reading   *)
(* of an estimand that is returned together with an event, vocabulary.     *)
(* An event is a sequence of variable records [n, s, iv] with s in {1, 2}  *)
(* ("-v": the base value, "+v": the other value) and iv a sequence of      *)
(* <<name, mark>> subscripts; its probability in a functional model is the *)
(* multi-world term P(ev) of Sem.tla (PTermMulti).                         *)
(***************************************************************************)
EXTENDS Sem

EventTerm(ev, pop) == PT(ev, <<>>, pop)
CondEventTerm(ev, cond, pop) == PT(ev, cond, pop)

\* ---------------------------------------------------------------- families of events over a node set
Marks == {1, 2}
RECURSIVE IvSeqs(_)
\* all subscript sequences over a set of names: each name absent, "-" or "+", in name order
IvSeqs(S) == IF S = {} THEN {<<>>}
             ELSE LET x == Min(S)  rest == IvSeqs(S \ {x}) IN
                  rest \cup {<<<<x, k>>>> \o r : k \in Marks, r \in rest}
AtomsOn(V, maxIv, reflexive) ==
  UNION {{[n |-> v, s |-> s, iv |-> iv] : s \in Marks,
            iv \in {q \in IvSeqs(IF reflexive THEN V ELSE V \ {v}) : Len(q) <= maxIv}} : v \in V}
KeyOf(a) == <<a.n, a.iv>>
\* an injective code of an atom (names <= 9, at most 2 subscripts): a fixed order for printing conjunctions
IvEntry(p) == p[1] * 2 + (p[2] - 1)
IvCode(iv) == IF iv = <<>> THEN 0 ELSE IF Len(iv) = 1 THEN 400 + IvEntry(iv[1]) ELSE 800 + IvEntry(iv[1]) * 20 + IvEntry(iv[2])
AtomCode(a) == a.n * 4000 + (a.s - 1) * 2000 + IvCode(a.iv)
RECURSIVE SetToSeqBy(_)
SetToSeqBy(S) == IF S = {} THEN <<>>
                 ELSE LET x == CHOOSE x \in S : \A y \in S : AtomCode(x) <= AtomCode(y)
                      IN <<x>> \o SetToSeqBy(S \ {x})
EventsOn(V, k, maxIv, reflexive) ==
  LET A == AtomsOn(V, maxIv, reflexive)
      ok(S) == Cardinality({KeyOf(a) : a \in S}) = Cardinality(S)
      e1 == {{a} : a \in A}
      e2 == IF k >= 2 THEN {{p[1], p[2]} : p \in {q \in A \X A : AtomCode(q[1]) < AtomCode(q[2]) /\ KeyOf(q[1]) # KeyOf(q[2])}} ELSE {}
      e3 == IF k >= 3 THEN {S \in {e \cup {a} : e \in e2, a \in A} : Cardinality(S) = 3 /\ ok(S)} ELSE {}
  IN e1 \cup e2 \cup e3

\* ---------------------------------------------------------------- readings (DESIGN 3.5)
\* R maps a name to the mark an unmarked free occurrence of it is read with
RECURSIVE ApplyReadingB(_, _, _)
RdVar(v, R, bound) == IF v.s = 0 /\ v.n \notin bound /\ v.n \in DOMAIN R THEN [v EXCEPT !.s = R[v.n]] ELSE v
ApplyReadingB(e, R, bound) ==
  CASE e.t = "P" -> [e EXCEPT !.ch = [i \in DOMAIN e.ch |-> RdVar(e.ch[i], R, bound)],
                              !.pa = [i \in DOMAIN e.pa |-> RdVar(e.pa[i], R, bound)]]
    [] e.t = "M" -> [e EXCEPT !.es = [i \in DOMAIN e.es |-> ApplyReadingB(e.es[i], R, bound)]]
    [] e.t = "F" -> [e EXCEPT !.a = ApplyReadingB(e.a, R, bound), !.b = ApplyReadingB(e.b, R, bound)]
    [] e.t = "S" -> [e EXCEPT !.e = ApplyReadingB(e.e, R, bound \cup ToSet(e.r))]
    [] OTHER -> e
ApplyReading(e, R) == ApplyReadingB(e, R, {})
EvNames(ev) == {ev[i].n : i \in DOMAIN ev}
\* names that occur only as subscripts of the event may be read with the mark of such a subscript
SubNames(ev) == UNION {IvNames(ev[i]) : i \in DOMAIN ev} \ EvNames(ev)
ReadingsSub(ev) ==
  {R \in [EvNames(ev) \cup SubNames(ev) -> Marks] :
     /\ \A n \in EvNames(ev) : \E i \in DOMAIN ev : ev[i].n = n /\ ev[i].s = R[n]
     /\ \A n \in SubNames(ev) : \E i \in DOMAIN ev : <<n, R[n]>> \in ToSet(ev[i].iv)}
\* weaker reading used where the statement does not fix how subscripts are read (C19 factorisation, C09): y0 cannot
\* tell the subscript "X" from "-X" (both are Intervention(star=False)), so a "-" subscript on a free name that is an
\* outcome variable of the returned event may also stand for that variable's event value
RECURSIVE ApplyReadingIvB(_, _, _)
RdIv(v, R, bound) == [v EXCEPT !.iv = [i \in DOMAIN v.iv |->
                         IF v.iv[i][2] = 1 /\ v.iv[i][1] \notin bound /\ v.iv[i][1] \in DOMAIN R
                         THEN <<v.iv[i][1], R[v.iv[i][1]]>> ELSE v.iv[i]]]
ApplyReadingIvB(e, R, bound) ==
  CASE e.t = "P" -> [e EXCEPT !.ch = [i \in DOMAIN e.ch |-> RdIv(RdVar(e.ch[i], R, bound), R, bound)],
                              !.pa = [i \in DOMAIN e.pa |-> RdIv(RdVar(e.pa[i], R, bound), R, bound)]]
    [] e.t = "M" -> [e EXCEPT !.es = [i \in DOMAIN e.es |-> ApplyReadingIvB(e.es[i], R, bound)]]
    [] e.t = "F" -> [e EXCEPT !.a = ApplyReadingIvB(e.a, R, bound), !.b = ApplyReadingIvB(e.b, R, bound)]
    [] e.t = "S" -> [e EXCEPT !.e = ApplyReadingIvB(e.e, R, bound \cup ToSet(e.r))]
    [] OTHER -> e
ApplyReadingIv(e, R) == ApplyReadingIvB(e, R, {})
\* candidate readings an event permits: every outcome variable name takes one of the values the event gives it
Readings(ev) == {R \in [EvNames(ev) -> Marks] : \A n \in EvNames(ev) : \E i \in DOMAIN ev : ev[i].n = n /\ ev[i].s = R[n]}

\* ---------------------------------------------------------------- Correa, Lee & Bareinboim: definitions (C19)
\* subscripts of a variable record restricted to a set of names
IvOn(v, S) == SelectSeq(v.iv, LAMBDA i : i[1] \in S)
\* ||Y_x|| = Y_t with T = X cap An(Y) in G with the edges into X removed, t = x restricted to T
MinRef(G, v) == LET X == IvNames(v) IN [v EXCEPT !.iv = IvOn(v, X \cap An(RemoveIn(G, X), {v.n}))]
\* Definition 2.1: An(Y_x) = { W_z : W in An(Y) in G with the edges out of X removed, z = x restricted to An(W) in G
\* with the edges into X removed }; elements as <<name, set of subscripts>>
AnCtf(G, v) ==
  LET X == IvNames(v) IN
  {<<w, ToSet(IvOn(v, An(RemoveIn(G, X), {w})))>> : w \in An(RemoveOut(G, X), {v.n})}
VarKey(v) == <<v.n, ToSet(v.iv)>>
\* Definition 4.2 (ancestral components induced by W* given X*, X* a subset of W*):
\*   X*(W_t)   = V(||X*|| cap An(W_t))                      the conditioned variables among W_t's ancestors (base names)
\*   A(W_t)    = An(W_t) in G with the edges out of X*(W_t) removed
\*   components = the coarsest partition of the union of the A(W_t) into unions of them such that two sets that
\*                share an element, or contain two nodes joined by a bidirected edge of G, lie in one block
XStarOf(G, Xs, w) == {k[1] : k \in {VarKey(MinRef(G, x)) : x \in Xs} \cap AnCtf(G, w)}
AncSetGiven(G, Xs, w) == AnCtf(RemoveOut(G, XStarOf(G, Xs, w)), w)
\* (two copies of one variable in different worlds share their exogenous noise, which couples them at least as much as
\*  a bidirected edge: sets containing copies of the same variable are linked)
LinkedSets(G, A, B) == A \cap B # {} \/ \E a \in A, b \in B : a[1] = b[1] \/ {a[1], b[1]} \in G.b
RECURSIVE MergeLinked(_, _)
MergeLinked(G, Pp) ==
  LET prs == {pr \in Pp \X Pp : pr[1] # pr[2] /\ LinkedSets(G, pr[1], pr[2])} IN
  IF prs = {} THEN Pp
  ELSE LET pr == CHOOSE pr \in prs : TRUE IN MergeLinked(G, (Pp \ {pr[1], pr[2]}) \cup {pr[1] \cup pr[2]})
AncestralComponents(G, Ws, Xs) == MergeLinked(G, {AncSetGiven(G, Xs, w) : w \in Ws})

\* ---------------------------------------------------------------- merge-chain events (C18)
\* Events that force chains of Lemma-24/25 merges in the counterfactual graph: one variable y in worlds that differ
\* only in a subscript z irrelevant to y (z is not an ancestor of y once the edges into the common subscript x are cut),
\* so that all these copies of y are one random variable, with atoms on two of the copies (all four value
\* combinations: agreeing and clashing) and a third atom, on another variable, in the remaining world.
IvSeqOf(S) == CHOOSE q \in IvSeqs({p[1] : p \in S}) : ToSet(q) = S
ChainOn(G, y, x, z) ==
  UNION {
    LET W == {{<<x, sx>>}, {<<x, sx>>, <<z, 1>>}, {<<x, sx>>, <<z, 2>>}} IN
    UNION {LET last == CHOOSE w \in W : w \notin {pr[1], pr[2]} IN
           {{[n |-> y, s |-> u, iv |-> IvSeqOf(pr[1])], [n |-> y, s |-> v, iv |-> IvSeqOf(pr[2])],
             [n |-> o, s |-> t, iv |-> IvSeqOf(last)]} :
               u \in Marks, v \in Marks, t \in Marks, o \in G.n \ ({y} \cup {p[1] : p \in last})} :
           pr \in {q \in W \X W : q[1] # q[2]}}
    : sx \in Marks}
MergeChainEvents(G) ==
  UNION {UNION {UNION {ChainOn(G, y, x, z) : z \in {k \in G.n \ {x, y} : k \notin An(RemoveIn(G, {x}), {y})}}
                : x \in G.n \ {y}} : y \in G.n}

\* ---------------------------------------------------------------- vocabulary (C06): single-world terms only
RECURSIVE SingleWorldOnly(_)
SingleWorldOnly(e) ==
  CASE e.t = "P" -> Cardinality({ToSet(v.iv) : v \in TermVars(e)}) <= 1
    [] e.t = "M" -> \A i \in DOMAIN e.es : SingleWorldOnly(e.es[i])
    [] e.t = "F" -> SingleWorldOnly(e.a) /\ SingleWorldOnly(e.b)
    [] e.t = "S" -> SingleWorldOnly(e.e)
    [] OTHER -> TRUE
=============================================================================

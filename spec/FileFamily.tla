----------------------------- MODULE FileFamily -----------------------------
(***************************************************************************)
(* A graph family read from a file (env GRAPH_FILE, JSON list of           *)
(* [n |-> <<..>>, d |-> <<<<u, v>>..>>, b |-> <<<<u, v>>..>>]): used for   *)
(* the repository's own example catalogue (5-8 node graphs from the        *)
(* literature), which the harness dumps with nodes numbered in a           *)
(* topological order.  The graphs are inputs only: every expected value is *)
(* computed by the machines from the definitions, as for any other family. *)
(***************************************************************************)
EXTENDS MixedGraph, Json, IOUtils, SequencesExt

FileGraphs == LET js == JsonDeserialize(IOEnv.GRAPH_FILE) IN
              {MkG(ToSet(js[i].n), {<<e[1], e[2]>> : e \in ToSet(js[i].d)}, {{e[1], e[2]} : e \in ToSet(js[i].b)}) :
                 i \in DOMAIN js}
=============================================================================

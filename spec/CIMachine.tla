----------------------------- MODULE CIMachine -----------------------------
(***************************************************************************)
(* Layer 2 machine for C15: the enumeration of implied conditional         *)
(* independencies (y0: d_separations + minimal behind                      *)
(* get_conditional_independencies) as a state machine, one action per      *)
(* step of the search:                                                     *)
(*   StartPair  pick the next unordered pair (any order: the code iterates *)
(*              over a set),                                               *)
(*   Probe      test the conditioning sets of the current size; emit one   *)
(*              separating set (any of that size: set iteration order) and *)
(*              close the pair, or move to the next size,                  *)
(*   GiveUp     the size limit is reached: close the pair without a        *)
(*              judgement.                                                 *)
(* The separation oracle of the machine is the verdict table SepTable of   *)
(* Separation.tla (the definition), not an algorithm.  TLC checks that     *)
(* every terminal state of every behaviour is the list the property        *)
(* demands: exactly one judgement for every pair with a separator within   *)
(* the limit, none for any other, each a true separation of minimum size.  *)
(* The size limit is modelled with both readings of "within the requested  *)
(* size limit" (Incl: |C| <= k; ~Incl: |C| < k, which is what powerset's   *)
(* exclusive stop implements).                                             *)
(***************************************************************************)
EXTENDS Separation, TLC

CONSTANTS Family,     \* "A3" | "A4o"
          Limits,     \* set of size limits k explored (Unlimited = -1)
          PairOrder   \* "any": pairs in any order | "min": smallest pending pair first (smaller state space)

Unlimited == -1
LimitsA == {Unlimited, 0, 1, 2}     \* cfg files cannot write -1
LimitsB == {Unlimited, 1, 2}

VARIABLES g, tab, k, incl, phase, pending, cur, size, found
vars == <<g, tab, k, incl, phase, pending, cur, size, found>>

Graphs == CASE Family = "A3" -> AllADMG(3) [] Family = "A4o" -> OrderedADMG(4) [] Family = "A2" -> AllADMG(2)
PairsOf(G) == {p \in G.n \X G.n : p[1] < p[2]}
None == <<0, 0>>

Init == /\ g \in Graphs /\ k \in Limits /\ incl \in BOOLEAN
        /\ phase = "chosen" /\ tab = {} /\ pending = {} /\ cur = None /\ size = 0 /\ found = {}

\* the verdict table is computed once (a Next step: TLC evaluates initial states on one thread)
Tabulate == /\ phase = "chosen" /\ phase' = "enum"
            /\ tab' = SepTable(g) /\ pending' = PairsOf(g)
            /\ UNCHANGED <<g, k, incl, cur, size, found>>

MaxSize == IF k = Unlimited THEN Cardinality(g.n) ELSE IF incl THEN k ELSE k - 1

StartPair == /\ phase = "enum" /\ cur = None /\ pending # {}
             /\ \E p \in pending :
                  /\ PairOrder = "min" => \A q \in pending : <<p[1], p[2]>> = <<q[1], q[2]>> \/ p[1] < q[1] \/ (p[1] = q[1] /\ p[2] < q[2])
                  /\ cur' = p /\ pending' = pending \ {p}
             /\ size' = 0
             /\ UNCHANGED <<g, tab, k, incl, phase, found>>

SepsOfSize == {t \in tab : t[1] = cur[1] /\ t[2] = cur[2] /\ Cardinality(t[3]) = size}

Probe == /\ phase = "enum" /\ cur # None /\ size <= MaxSize /\ size <= Cardinality(g.n) - 2
         /\ IF SepsOfSize # {}
            THEN /\ \E t \in SepsOfSize : found' = found \cup {t}
                 /\ cur' = None /\ size' = 0
            ELSE /\ size' = size + 1 /\ UNCHANGED <<cur, found>>
         /\ UNCHANGED <<g, tab, k, incl, phase, pending>>

GiveUp == /\ phase = "enum" /\ cur # None /\ (size > MaxSize \/ size > Cardinality(g.n) - 2)
          /\ cur' = None /\ size' = 0
          /\ UNCHANGED <<g, tab, k, incl, phase, pending, found>>

Finish == /\ phase = "enum" /\ cur = None /\ pending = {}
          /\ phase' = "done"
          /\ UNCHANGED <<g, tab, k, incl, pending, cur, size, found>>

Next == Tabulate \/ StartPair \/ Probe \/ GiveUp \/ Finish
Spec == Init /\ [][Next]_vars

\* ------------------------------------------------------------------ properties
Done == phase = "done"
MinOf(p) == MinSize(g, tab, p[1], p[2])
\* every emitted judgement is a true separation of minimum size for its pair (at every step, not only at the end)
Sound == \A t \in found : t \in tab /\ Cardinality(t[3]) = MinOf(<<t[1], t[2]>>)
\* at most one judgement per pair, at every step
AtMostOne == \A s \in found : \A t \in found : (s[1] = t[1] /\ s[2] = t[2]) => s = t
\* the final list: exactly the pairs with a separator within the limit
Exact == Done => \A p \in PairsOf(g) :
           (\E t \in found : t[1] = p[1] /\ t[2] = p[2]) <=> (MinOf(p) # 99 /\ MinOf(p) <= MaxSize)
\* the two readings of the limit bracket every final list (what the conformance check accepts)
TwoSided == Done => \A p \in PairsOf(g) :
           LET has == \E t \in found : t[1] = p[1] /\ t[2] = p[2] IN
           /\ (k # Unlimited /\ MinOf(p) <= k - 1) => has
           /\ has => (k = Unlimited \/ MinOf(p) <= k)
\* found only grows
Monotone == [][found \subseteq found']_vars
\* the search terminates: every behaviour reaches "done" (checked as: no deadlock before done)
Progress == phase # "done" => ENABLED Next
=============================================================================

---------------------------- MODULE IDMachine ----------------------------
(***************************************************************************)
(* Design-level check of the reference ID / IDC (ID.tla) against the SCM   *)
(* semantics (Sem.tla), and generator of the query family replayed into    *)
(* y0.  One behaviour = choose (G, X, Y[, Z]); one step computes the       *)
(* reference estimand, the verdicts of the three characterisations and the *)
(* semantic comparison on Seeds.                                           *)
(***************************************************************************)
EXTENDS ID, Families, Json

CONSTANTS Family,     \* "A3" | "A4o" | "A2"
          Mode,       \* "id" | "idc"
          Seeds,      \* set of model seeds
          Check,      \* TRUE: evaluate the semantic comparison (design check); FALSE: generator only
          RndN, RndK  \* random family: nodes, number of edge subsets drawn

VARIABLES q, phase, res, cmp

vars == <<q, phase, res, cmp>>

Graphs == GraphFamily(Family, RndN, RndK)

Inputs ==
  CASE Mode = "tian" -> UNION {{[g |-> G, t |-> p[1], c |-> p[2], topo |-> o] : p \in TianPairs(G), o \in TopoOrders(G)} : G \in Graphs}
    [] Mode = "id"   -> UNION {{[g |-> G, x |-> p[1], y |-> p[2], z |-> {}] : p \in Queries(G)} : G \in Graphs}
    [] Mode = "idc"  -> UNION {{[g |-> G, x |-> p[1], y |-> p[2], z |-> p[3]] : p \in CQueries(G)} : G \in Graphs}

Init == /\ q \in Inputs /\ phase = "chosen" /\ res = Fail /\ cmp = <<>>

Truth(i) == IF Mode = "tian" THEN TruthDo(i.g.n \ i.c, i.c, 0) ELSE IF i.z = {} THEN TruthDo(i.x, i.y, 0) ELSE TruthCDo(i.x, i.y, i.z, 0)

Run == /\ phase = "chosen" /\ phase' = "done" /\ q' = q
       /\ LET r == IF Mode = "tian" THEN TianIdentify(q.g, q.c, q.t, QLemma1(q.g.n, q.t, q.topo), q.topo)
                   ELSE IF Mode = "id" THEN IDRef(q.g, q.x, q.y) ELSE IDCf(q.g, q.x, q.y, q.z) IN
          /\ res' = r
          /\ cmp' = IF IsFail(r) \/ ~Check THEN <<>>
                    ELSE LET sd == SetToSeq(Seeds)
                             tr == Truth(q)
                         IN [k \in DOMAIN sd |->
                               LET M == Model(q.g, EdgeLatents(q.g), Binary(q.g), NoTag(q.g), sd[k])
                                   W == Bundle([p \in {0} |-> M], Dos(r) \cup Dos(tr))
                               IN CmpAt(W, r, tr)]

Next == Run
Spec == Init /\ [][Next]_vars

Done == phase = "done"

\* soundness: the reference estimand denotes the truth at every defined point, and is defined somewhere
Sound == (Done /\ ~IsFail(res)) =>
            \A k \in DOMAIN cmp : cmp[k].nbad = 0 /\ cmp[k].ndef > 0
\* completeness (ID only): the reference refuses exactly when Tian's criterion fails, exactly when a
\* hedge exists
Complete == (Done /\ Mode = "id") =>
            /\ IsFail(res) = ~TianOK(q.g, q.x, q.y)
            /\ IsFail(res) = HedgeEx(q.g, q.x, q.y)
\* vocabulary (C06): observational terms over the graph's nodes only
\* Tian mode: IDENTIFY fails exactly when TIdent says so; the c-factor of T itself (Lemma 1) denotes Q[T]
TianComplete == (Done /\ Mode = "tian") => IsFail(res) = ~TIdent(q.g, q.c, q.t)
Vocab == (Done /\ ~IsFail(res)) => ObsOnly(res, q.g.n)

Emit == Done => PrintT(<<"IDQ", ToJson([g |-> [n |-> q.g.n, d |-> q.g.d, b |-> q.g.b],
                                          x |-> q.x, y |-> q.y, z |-> q.z,
                                          ident |-> ~IsFail(res)])>>)
=============================================================================

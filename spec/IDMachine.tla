---------------------------- MODULE IDMachine ----------------------------
(***************************************************************************)
(* Design-level check of the reference ID / IDC (ID.tla) against the SCM   *)
(* semantics (Sem.tla), and generator of the query family replayed into    *)
(* y0.  One behaviour = choose (G, X, Y[, Z]); one step computes the       *)
(* reference estimand, the verdicts of the three characterisations and the *)
(* semantic comparison on Seeds.                                           *)
(***************************************************************************)
EXTENDS ID, Families, Json

CONSTANTS Family,     \* "A3" | "A4o" | "A2"
          Mode,       \* "id" | "idc"
          Seeds,      \* set of model seeds
          Check,      \* TRUE: evaluate the semantic comparison (design check); FALSE: generator only
          RndN, RndK  \* random family: nodes, number of edge subsets drawn

VARIABLES q, phase, res, cmp

vars == <<q, phase, res, cmp>>

Graphs == GraphFamily(Family, RndN, RndK)

Inputs == IF Mode = "id"
          THEN {[g |-> G, x |-> p[1], y |-> p[2], z |-> {}] : G \in Graphs, p \in Queries(Pick(Graphs))}
          ELSE {[g |-> G, x |-> p[1], y |-> p[2], z |-> p[3]] : G \in Graphs, p \in CQueries(Pick(Graphs))}

Init == /\ q \in Inputs /\ phase = "chosen" /\ res = Fail /\ cmp = <<>>

Truth(i) == IF i.z = {} THEN TruthDo(i.x, i.y, 0) ELSE TruthCDo(i.x, i.y, i.z, 0)

Run == /\ phase = "chosen" /\ phase' = "done" /\ q' = q
       /\ LET r == IF Mode = "id" THEN IDRef(q.g, q.x, q.y) ELSE IDCf(q.g, q.x, q.y, q.z) IN
          /\ res' = r
          /\ cmp' = IF IsFail(r) \/ ~Check THEN <<>>
                    ELSE LET sd == SetToSeq(Seeds)
                             tr == Truth(q)
                         IN [k \in DOMAIN sd |->
                               LET M == Model(q.g, EdgeLatents(q.g), Binary(q.g), NoTag(q.g), sd[k])
                                   W == Bundle([p \in {0} |-> M], Dos(r) \cup Dos(tr))
                               IN CmpAt(W, r, tr)]

Next == Run
Spec == Init /\ [][Next]_vars

Done == phase = "done"

\* soundness: the reference estimand denotes the truth at every defined point, and is defined somewhere
Sound == (Done /\ ~IsFail(res)) =>
            \A k \in DOMAIN cmp : cmp[k].nbad = 0 /\ cmp[k].ndef > 0
\* completeness (ID only): the reference refuses exactly when Tian's criterion fails, exactly when a
\* hedge exists
Complete == (Done /\ Mode = "id") =>
            /\ IsFail(res) = ~TianOK(q.g, q.x, q.y)
            /\ IsFail(res) = HedgeEx(q.g, q.x, q.y)
\* vocabulary (C06): observational terms over the graph's nodes only
Vocab == (Done /\ ~IsFail(res)) => ObsOnly(res, q.g.n)

Emit == Done => PrintT(<<"IDQ", ToJson([g |-> [n |-> q.g.n, d |-> q.g.d, b |-> q.g.b],
                                          x |-> q.x, y |-> q.y, z |-> q.z,
                                          ident |-> ~IsFail(res)])>>)
=============================================================================

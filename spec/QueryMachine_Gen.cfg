SPECIFICATION Spec
CONSTANTS
  N = 3
  Depth = 2
INVARIANT Emit
CONSTRAINT Bound
CHECK_DEADLOCK FALSE

SPECIFICATION Spec
CONSTANTS
  Family = "A3"
  Mode = "id"
  Seeds = {1, 2}
  Check = TRUE
  RndN = 5
  RndK = 4
INVARIANT Sound
INVARIANT Complete
INVARIANT Vocab
CHECK_DEADLOCK FALSE

SPECIFICATION Spec
CONSTANTS
  Family = "A3"
  Mode = "id"
  Seeds = {1, 2}
INVARIANT Sound
INVARIANT Complete
INVARIANT Vocab
CHECK_DEADLOCK FALSE

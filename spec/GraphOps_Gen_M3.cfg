SPECIFICATION Spec
CONSTANTS
  Family = "M3"
  Depth = 1
  RndN = 5
  Mutators = FALSE
  RndK = 4
INVARIANT Emit
CONSTRAINT Bound
CHECK_DEADLOCK FALSE

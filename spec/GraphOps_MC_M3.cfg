SPECIFICATION Spec
CONSTANTS
  Family = "M3"
  Depth = 1
  RndN = 5
  Mutators = TRUE
  RndK = 4
INVARIANT TypeOK
INVARIANT Laws
PROPERTY NodesShrink
PROPERTY MutatorsGrow
CONSTRAINT Bound
CHECK_DEADLOCK FALSE

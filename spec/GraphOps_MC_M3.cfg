SPECIFICATION Spec
CONSTANTS
  Family = "M3"
  Depth = 1
  RndN = 5
  RndK = 4
INVARIANT TypeOK
INVARIANT Laws
PROPERTY NodesShrink
CONSTRAINT Bound
CHECK_DEADLOCK FALSE

------------------------------- MODULE CITrace -------------------------------
(***************************************************************************)
(* Trace specification for CIMachine (C15): the sequence of judgements     *)
(* that the real generator y0 ... d_separations(graph, max_conditions=k)   *)
(* yields, in the order it yields them, must be a behaviour of the         *)
(* machine.  One logged event = one emitted judgement (a, b, C); the       *)
(* machine's silent steps (StartPair, the Probe steps that find nothing,   *)
(* GiveUp) are not logged and are inferred by TLC:                         *)
(*   - the pair started next is the pair of the next logged event;         *)
(*   - pairs for which nothing was logged are started after the last       *)
(*     logged event (pairs are independent, so every real execution is     *)
(*     equivalent to one that handles them last) and must end in GiveUp;   *)
(*   - the reading of the size limit (incl) is not logged either: a trace  *)
(*     is accepted if one reading explains all of it.                      *)
(* Many traces are validated in one TLC run: every trace is an initial     *)
(* state; a trace is accepted iff the state "done with every event         *)
(* consumed" is reachable, which is reported by the PrintT of Accepted.    *)
(***************************************************************************)
EXTENDS CIMachine, Json, IOUtils, SequencesExt

Traces == JsonDeserialize(IOEnv.TRACE_FILE)

VARIABLES ti, l
tvars == <<vars, ti, l>>

GraphOfT(t) == MkG(ToSet(t.n), {<<e[1], e[2]>> : e \in ToSet(t.d)}, {{e[1], e[2]} : e \in ToSet(t.b)})
Ev(i) == Traces[ti].events[i]
NEv == Len(Traces[ti].events)
EvPair(i) == <<Ev(i)[1], Ev(i)[2]>>
EvTriple(i) == <<Ev(i)[1], Ev(i)[2], ToSet(Ev(i)[3])>>

TInit == /\ ti \in DOMAIN Traces /\ l = 1
         /\ g = GraphOfT(Traces[ti].g) /\ k = Traces[ti].k /\ incl \in BOOLEAN
         /\ phase = "chosen" /\ tab = {} /\ pending = {} /\ cur = None /\ size = 0 /\ found = {}

TTabulate == Tabulate /\ UNCHANGED <<ti, l>>
\* start the pair of the next logged event, or - when every event is consumed - any remaining pair
TStart == /\ phase = "enum" /\ cur = None /\ pending # {}
          /\ \E p \in pending :
               /\ IF l <= NEv THEN p = EvPair(l) ELSE TRUE
               /\ cur' = p /\ pending' = pending \ {p}
          /\ size' = 0
          /\ UNCHANGED <<g, tab, k, incl, phase, found, ti, l>>
\* a Probe step that emits must emit exactly the logged judgement; one that finds nothing is silent
TProbe == /\ Probe
          /\ IF found' # found
             THEN l <= NEv /\ found' = found \cup {EvTriple(l)} /\ l' = l + 1
             ELSE l' = l
          /\ ti' = ti
\* giving up is only possible for a pair without a logged judgement
TGiveUp == GiveUp /\ l > NEv /\ UNCHANGED <<ti, l>>
TFinish == Finish /\ l = NEv + 1 /\ UNCHANGED <<ti, l>>

TNext == TTabulate \/ TStart \/ TProbe \/ TGiveUp \/ TFinish
TraceSpec == TInit /\ [][TNext]_tvars

\* the machine's own invariants are evaluated in every state of every explained prefix
TSound == Sound
TAtMostOne == AtMostOne
\* acceptance: reported once per accepted trace (and reading)
Accepted == (phase = "done" /\ l = NEv + 1) => PrintT(<<"ACC", ToJson([ti |-> ti, id |-> Traces[ti].id, incl |-> incl])>>)
\* how far each trace got (for diagnosing a rejection): longest consumed prefix
Reached == PrintT(<<"AT", ti, l>>)
=============================================================================

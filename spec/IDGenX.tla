------------------------------- MODULE IDGenX -------------------------------
(***************************************************************************)
(* Targeted ID inputs found by searching with the reference's own          *)
(* recursion structure (same idea as L7Depth / DeepAfter7 of ID.tla).      *)
(*   WideL6: the run reaches line 6 inside a sub-problem that line 7       *)
(*   created (so the current distribution is no longer the observational   *)
(*   joint), the district S of that line has at least two variables, and a *)
(*   remaining treatment lies strictly between two of them in the          *)
(*   topological order: the factors P'(v | predecessors), v in S, are then *)
(*   not consecutive conditionals and their product does not telescope.    *)
(*   Family CH5: the chain 1 -> 2 -> 3 -> 4 -> 5 (its topological order is *)
(*   forced) with optional skip edges and at most three bidirected edges;  *)
(*   such runs start at five nodes.                                        *)
(***************************************************************************)
EXTENDS IDGen

CH5Graphs == {MkG(1..5, {<<1, 2>>, <<2, 3>>, <<3, 4>>, <<4, 5>>} \cup d2, b) :
                 d2 \in SUBSET {<<1, 3>>, <<2, 4>>, <<3, 5>>},
                 b \in {x \in SUBSET UPairs(5) : Cardinality(x) <= 3}}

RECURSIVE WideL6(_, _, _, _)
WideL6(Y, X, G, after7) ==
  LET V   == G.n
      AnY == An(G, Y)
      W   == (V \ X) \ An(RemoveIn(G, X), Y)
      GX  == SubG(G, V \ X)
      CX  == Districts(GX)
  IN IF X = {} THEN FALSE
     ELSE IF V \ AnY # {} THEN WideL6(Y, X \cap AnY, SubG(G, AnY), after7)
     ELSE IF W # {} THEN WideL6(Y, X \cup W, G, after7)
     ELSE IF Cardinality(CX) > 1 THEN \E m \in {Min(S) : S \in CX} : WideL6(District(GX, m), V \ District(GX, m), G, after7)
     ELSE LET S == Pick(CX) IN
        IF Districts(G) = {V} THEN FALSE
        ELSE IF S \in Districts(G)
             THEN after7 /\ Cardinality(S) >= 2 /\ \E x \in X : Min(S) < x /\ x < Max(S)
        ELSE LET Sp == Pick({D \in Districts(G) : S \subseteq D}) IN WideL6(Y, X \cap Sp, SubG(G, Sp), TRUE)

WideQueries(G) == {p \in Queries(G) : WideL6(p[2], p[1], G, FALSE) /\ ~IsFail(IDRef(G, p[1], p[2]))}
LineX(G) == [g |-> [n |-> G.n, d |-> G.d, b |-> G.b],
             qs |-> {<<p[1], p[2], {}, TRUE, L7Depth(p[2], p[1], G), TRUE>> : p \in WideQueries(G)}]
InitX == g \in CH5Graphs /\ phase = "chosen"
RunX == /\ phase = "chosen" /\ phase' = "done" /\ g' = g
        /\ (WideQueries(g) # {} => PrintT(<<"IDG", ToJson(LineX(g))>>))
SpecX == InitX /\ [][RunX]_vars
=============================================================================

------------------------------ MODULE IDLines ------------------------------
(***************************************************************************)
(* The ID algorithm as a state machine with one action per line, and the   *)
(* trace specification that validates the line events logged by the hook   *)
(* in y0.algorithm.identify.id_std (guard Y0_VERIF=1).                     *)
(*                                                                         *)
(* A frame is [y, x, v]: outcomes, treatments and the node set of the      *)
(* current graph, which is always the sub-graph of the original graph      *)
(* induced by v.  The machine keeps the stack of frames still to be        *)
(* visited; y0 recurses depth first, so its event sequence is a pre-order  *)
(* walk.  Line 4 may visit its sub-problems in any order: the trace        *)
(* specification leaves the order open and the logged frames resolve it.   *)
(* A failure (line 5) unwinds the whole recursion: the behaviour ends.     *)
(***************************************************************************)
EXTENDS ID, Json, IOUtils, TLC

Traces == JsonDeserialize(IOEnv.TRACE_FILE)   \* sequence of [id, g |-> [n, d, b], x, y, out, evs |-> <<[line, x, y, v]>>]

VARIABLES tid, l, stack, failed
vars == <<tid, l, stack, failed>>

G0(t) == MkG(ToSet(Traces[t].g.n), {<<e[1], e[2]>> : e \in ToSet(Traces[t].g.d)}, {{e[1], e[2]} : e \in ToSet(Traces[t].g.b)})
Gf(t, f) == SubG(G0(t), f.v)

\* the line that applies to a frame, and the frames it spawns
LineOf(G, f) ==
  LET V == f.v
      W == (V \ f.x) \ An(RemoveIn(G, f.x), f.y)
      CX == Districts(SubG(G, V \ f.x))
  IN IF f.x = {} THEN 1
     ELSE IF V \ An(G, f.y) # {} THEN 2
     ELSE IF W # {} THEN 3
     ELSE IF Cardinality(CX) > 1 THEN 4
     ELSE IF Districts(G) = {V} THEN 5
     ELSE IF Pick(CX) \in Districts(G) THEN 6
     ELSE 7
Children(G, f) ==
  LET V == f.v
      k == LineOf(G, f)
      CX == Districts(SubG(G, V \ f.x))
  IN CASE k = 2 -> {[y |-> f.y, x |-> f.x \cap An(G, f.y), v |-> An(G, f.y)]}
       [] k = 3 -> {[y |-> f.y, x |-> f.x \cup ((V \ f.x) \ An(RemoveIn(G, f.x), f.y)), v |-> V]}
       [] k = 4 -> {[y |-> S, x |-> V \ S, v |-> V] : S \in CX}
       [] k = 7 -> LET Sp == Pick({D \in Districts(G) : Pick(CX) \subseteq D}) IN {[y |-> f.y, x |-> f.x \cap Sp, v |-> Sp]}
       [] OTHER -> {}

Frame(e) == [y |-> ToSet(e.y), x |-> ToSet(e.x), v |-> ToSet(e.v)]

Init == /\ tid \in DOMAIN Traces /\ l = 1 /\ failed = FALSE
        /\ stack = <<[y |-> ToSet(Traces[tid].y), x |-> ToSet(Traces[tid].x), v |-> ToSet(Traces[tid].g.n)]>>

\* consume event l: it must describe the frame on top of the stack and the line that applies to it
Step ==
  /\ ~failed /\ l <= Len(Traces[tid].evs) /\ stack # <<>>
  /\ LET e == Traces[tid].evs[l]
         f == Head(stack)
         G == Gf(tid, f)
         k == LineOf(G, f)
     IN /\ Frame(e) = f
        /\ e.line = k
        /\ failed' = (k = 5)
        /\ \E ord \in {s \in [1..Cardinality(Children(G, f)) -> Children(G, f)] :
                          \A i, j \in DOMAIN s : s[i] = s[j] => i = j} :
              stack' = ord \o Tail(stack)
  /\ l' = l + 1 /\ tid' = tid
Spec == Init /\ [][Step]_vars

\* acceptance of one trace: every event consumed, and either the walk is complete with an estimand returned,
\* or it ended in the line-5 failure with the refusal returned
Accepted == /\ l = Len(Traces[tid].evs) + 1
            /\ IF failed THEN Traces[tid].out = "unident" ELSE stack = <<>> /\ Traces[tid].out = "expr"
Report == Accepted => PrintT(<<"ACC", Traces[tid].id>>)
\* the longest prefix matched by some behaviour (for diagnostics of rejected traces)
Progress == PrintT(<<"POS", Traces[tid].id, l>>)
=============================================================================

SPECIFICATION Spec
CONSTANTS
  Family = "A4o"
  RndN = 5
  RndK = 8
INVARIANT EquivOnADMG
INVARIANT SigmaLaws
CHECK_DEADLOCK FALSE

SPECIFICATION Spec
CONSTANTS
  Family = "RND"
  Depth = 4
  RndN = 5
  Mutators = TRUE
  RndK = 6
INVARIANT TypeOK
INVARIANT Emit
CONSTRAINT Bound
CHECK_DEADLOCK FALSE

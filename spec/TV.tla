------------------------------- MODULE TV -------------------------------
(***************************************************************************)
(* Layer 3: trace validation of recorded y0 behaviour.                     *)
(* The trace (JSON, env TRACE_FILE) is a sequence of groups; a group is a  *)
(* graph (with optional source populations) and the records of the calls   *)
(* made on it.  One step consumes one group, evaluates every record with   *)
(* the semantics of Sem.tla / the reference verdicts of ID.tla and prints  *)
(* one verdict per record.  The chain is linear; parallelism comes from    *)
(* running one TLC per shard.                                              *)
(*                                                                         *)
(* Record kinds (field k of r):                                            *)
(*   "do"   x, y          out = result of ID for P(y | do x)               *)
(*   "cdo"  x, y, z       out = result of IDC                              *)
(*   "eq"   a, b          two terms claimed to denote the same quantity    *)
(* out = [k |-> "expr", e |-> term] | [k |-> "unident"] | [k |-> "exc"]    *)
(***************************************************************************)
EXTENDS ID, ExprMath, CF, IDStar, Json, IOUtils

CONSTANTS Seeds, Layout, Ternary, Fam     \* Fam: "S" stochastic | "F" functional models   \* Layout: "edge" | "clique"; Ternary: set of nodes with 3 values

Trace == JsonDeserialize(IOEnv.TRACE_FILE)
\* expensive diagnostic fields (never part of a verdict) are computed only when the harness asks for them
Diag == "TV_DIAG" \in DOMAIN IOEnv /\ IOEnv.TV_DIAG = "1"

VARIABLE gi
vars == <<gi>>

GraphOf(grp) == MkG(ToSet(grp.n),
                    {<<e[1], e[2]>> : e \in ToSet(grp.d)},
                    {{e[1], e[2]} : e \in ToSet(grp.b)})

CardOf(G) == [v \in G.n |-> IF v \in Ternary THEN 3 ELSE 2]
LatOf(G)  == IF Layout = "clique" THEN CliqueLatents(G) ELSE EdgeLatents(G)

\* population 0 is the target; population k >= 1 is grp.pops[k], either [tag |-> <<per-node tags>>] or a
\* source domain [z |-> experiments, w |-> surrogate outcomes] whose mechanisms are fresh exactly at the
\* nodes the derived selection diagram marks (TransportNodes)
PopTag(grp, G, p) ==
  IF "tag" \in DOMAIN grp.pops[p] THEN [v \in G.n |-> grp.pops[p].tag[v]]
  ELSE LET tn == TransportNodes(G, ToSet(grp.pops[p].z), ToSet(grp.pops[p].w)) IN
       [v \in G.n |-> IF v \in tn THEN p ELSE 0]
\* counterfactual-transport domains (C09): grp.cdoms[k] = [s |-> nodes with a selection node, z |-> policy variables];
\* domain k is the target with fresh mechanisms at s and z, the edges (directed and bidirected) into the policy
\* variables removed (a policy without parents and with its own fresh noise), every other mechanism and noise shared
\* (a latent keeps acting on its other children: only the policy variables are cut from it)
CDomModel(grp, G, k, seed) ==
  LET S == ToSet(grp.cdoms[k].s)  Z == ToSet(grp.cdoms[k].z)
      lat == LatOf(G)
      star == "star" \in DOMAIN grp.cdoms[k] /\ grp.cdoms[k].star
  IN \* a domain declared with the target's own population tag: the target under a policy that keeps the graph
     \* (the library's validator demands the target graph; the policy variables then keep their parents)
     IF star THEN ModelF(G, lat, CardOf(G), [v \in G.n |-> IF v \in Z THEN k ELSE 0], seed)
     ELSE ModelF(RemoveIn(G, Z), [j \in DOMAIN lat |-> lat[j] \ Z], CardOf(G),
                 [v \in G.n |-> IF v \in S \cup Z THEN k ELSE 0], seed)
ModelsOf(grp, G, seed) ==
  IF "cdoms" \in DOMAIN grp
  THEN [p \in 0..Len(grp.cdoms) |-> IF p = 0 THEN ModelF(G, LatOf(G), CardOf(G), NoTag(G), seed) ELSE CDomModel(grp, G, p, seed)]
  ELSE
  LET np == IF "pops" \in DOMAIN grp THEN Len(grp.pops) ELSE 0 IN
  [p \in 0..np |->
     IF Fam = "F" THEN ModelF(G, LatOf(G), CardOf(G), IF p = 0 THEN NoTag(G) ELSE PopTag(grp, G, p), seed)
     ELSE Model(G, LatOf(G), CardOf(G), IF p = 0 THEN NoTag(G) ELSE PopTag(grp, G, p), seed)]

OutTerm(r) == IF r.out.k = "expr" /\ "e" \in DOMAIN r.out THEN {r.out.e} ELSE {}
RecTerms(r, grp_n) ==
  CASE r.k = "do"  -> OutTerm(r) \cup {TruthDo(ToSet(r.x), ToSet(r.y), 0)}
    [] r.k = "cdo" -> OutTerm(r) \cup {TruthCDo(ToSet(r.x), ToSet(r.y), ToSet(r.z), 0)}
    [] r.k = "eq"  -> {r.a, r.b}
    [] r.k = "calc"  -> OutTerm(r) \cup {Math(r.m), DevMath(r.m), DevMathE(r.m)}
    [] r.k = "canon" -> OutTerm(r) \cup {r.pre}
    [] r.k = "pp"    -> OutTerm(r) \cup {r.a}
    [] r.k = "star"  -> OutTerm(r) \cup {EventTerm(r.ev, 0)}
    [] r.k = "cstar" -> OutTerm(r) \cup {EventTerm(r.ev \o r.cond, 0), EventTerm(r.cond, 0)}
    [] r.k = "cg"    -> {EventTerm(r.ev, 0)} \cup (IF r.out.k = "graph" THEN {EventTerm(r.out.ev, 0)} ELSE {})
    [] r.k = "min"   -> {EventTerm(<<[r.v EXCEPT !.s = 1]>>, 0)} \cup (IF r.out.k = "var" THEN {EventTerm(<<[r.out.v EXCEPT !.s = 1]>>, 0)} ELSE {})
    [] r.k = "simp"  -> {EventTerm(r.ev, 0)} \cup (IF r.out.k = "event" THEN {EventTerm(r.out.ev, 0)} ELSE {})
    [] r.k = "fact"  -> {EventTerm(r.ev, 0)} \cup OutTerm(r)
    [] r.k = "ctfu"  -> OutTerm(r) \cup {EventTerm(r.ev, 0)}
    [] r.k = "ctfc"  -> OutTerm(r) \cup {EventTerm(r.ev \o r.cond, 0), EventTerm(r.cond, 0)}
    [] r.k = "tr"  -> OutTerm(r) \cup {TruthDo(ToSet(r.x), ToSet(r.y), 0)}
    [] r.k = "q"   -> OutTerm(r) \cup {TruthDo(ToSet(grp_n) \ ToSet(r.s), ToSet(r.s), 0)}
    [] OTHER -> {}

\* compare two terms on every seed; result summarises all seeds
Cmp(Ws, e1, e2) ==
  LET c == TLCEval([k \in DOMAIN Ws |-> CmpAt(Ws[k], e1, e2)]) IN
  [ndef |-> MapThenSumSet(LAMBDA k : c[k].ndef, DOMAIN c),
   nbad |-> MapThenSumSet(LAMBDA k : c[k].nbad, DOMAIN c),
   sig  |-> MapThenSumSet(LAMBDA k : (c[k].sig * 31 + k) % 99991, DOMAIN c) % 99991,
   first |-> LET bs == {k \in DOMAIN c : c[k].nbad > 0} IN
             IF bs = {} THEN <<>> ELSE <<Min(bs)>> \o c[Min(bs)].first]

Verdict(id, ok, clause, c) == [id |-> id, ok |-> ok, clause |-> clause, c |-> c]
NoCmp == [ndef |-> 0, nbad |-> 0, sig |-> 0, first |-> <<>>]

\* semantic clause shared by every "estimand vs truth" kind
SemClause(id, Ws, e, truth) ==
  IF ~SingleWorld(e) THEN Verdict(id, FALSE, "multi-world-term", NoCmp)
  ELSE LET c == Cmp(Ws, e, truth) IN
       IF c.nbad > 0 THEN Verdict(id, FALSE, "value", c)
       ELSE IF c.ndef = 0 THEN Verdict(id, FALSE, "undefined-everywhere", c)
       ELSE Verdict(id, TRUE, "ok", c)

JudgeDo(G, Ws, r) ==
  LET X == ToSet(r.x)  Y == ToSet(r.y)
      ident == TianOK(G, X, Y)
  IN CASE r.out.k = "exc" -> Verdict(r.id, FALSE, "other-failure", NoCmp)
       [] r.out.k = "mutated" -> Verdict(r.id, FALSE, "side-effect", NoCmp)
       [] r.out.k = "unident" -> IF ident THEN Verdict(r.id, FALSE, "spurious-refusal", NoCmp)
                                 ELSE Verdict(r.id, TRUE, "refused", NoCmp)
       [] r.out.k = "expr" ->
            IF ~ident THEN Verdict(r.id, FALSE, "answered-unidentifiable", NoCmp)
            ELSE IF "unser" \in DOMAIN r.out THEN Verdict(r.id, FALSE, "vocabulary", NoCmp)
            ELSE IF "e" \notin DOMAIN r.out THEN Verdict(r.id, TRUE, "verdict-only", NoCmp)
            ELSE IF ~ObsOnly(r.out.e, G.n) THEN Verdict(r.id, FALSE, "vocabulary", NoCmp)
            ELSE SemClause(r.id, Ws, r.out.e, TruthDo(X, Y, 0))

JudgeCDo(G, Ws, r) ==
  LET X == ToSet(r.x)  Y == ToSet(r.y)  Z == ToSet(r.z) IN
  CASE r.out.k = "exc" -> Verdict(r.id, FALSE, "other-failure", NoCmp)
    [] r.out.k = "mutated" -> Verdict(r.id, FALSE, "side-effect", NoCmp)
    [] r.out.k = "unident" -> Verdict(r.id, TRUE, "refused", NoCmp)
    [] r.out.k = "expr" ->
         IF "unser" \in DOMAIN r.out THEN Verdict(r.id, FALSE, "vocabulary", NoCmp)
         ELSE IF ~ObsOnly(r.out.e, G.n) THEN Verdict(r.id, FALSE, "vocabulary", NoCmp)
         ELSE SemClause(r.id, Ws, r.out.e, TruthCDo(X, Y, Z, 0))

JudgeEq(G, Ws, r) ==
  LET c == Cmp(Ws, r.a, r.b) IN
  IF c.nbad > 0 THEN Verdict(r.id, FALSE, "value", c)
  ELSE Verdict(r.id, TRUE, IF c.ndef = 0 THEN "skip-undefined" ELSE "ok", c)

\* vocabulary only (C06): the estimand of ID / IDC mentions observational terms over V(G) only
JudgeVocab(G, r) ==
  IF r.out.k # "expr" THEN Verdict(r.id, TRUE, "no-estimand", NoCmp)
  ELSE IF "unser" \in DOMAIN r.out THEN Verdict(r.id, FALSE, "vocabulary", NoCmp)
  ELSE IF ObsOnly(r.out.e, G.n) THEN Verdict(r.id, TRUE, "ok", NoCmp)
  ELSE Verdict(r.id, FALSE, "vocabulary", NoCmp)

\* vocabulary only (C06), ID* / IDC*: the estimand contains interventional (single-world) terms only - within each
\* probability term all variables carry the same subscript set (CF.tla SingleWorldOnly); nothing is evaluated
JudgeSVocab(r) ==
  IF r.out.k # "expr" THEN Verdict(r.id, TRUE, "no-estimand", NoCmp)
  ELSE IF "unser" \in DOMAIN r.out THEN Verdict(r.id, FALSE, "vocabulary", NoCmp)
  ELSE IF r.out.e.t = "0" THEN Verdict(r.id, TRUE, "ok", NoCmp)
  ELSE IF SingleWorldOnly(r.out.e) THEN Verdict(r.id, TRUE, "ok", NoCmp)
  ELSE Verdict(r.id, FALSE, "vocabulary", NoCmp)

\* c-factor records (C17): out must denote Q[s] = P(s | do(V \ s)), or be the documented failure
JudgeQ(G, Ws, r) ==
  CASE r.out.k = "exc" -> Verdict(r.id, FALSE, "other-failure", NoCmp)
    [] r.out.k = "unident" -> Verdict(r.id, TRUE, "refused", NoCmp)
    [] r.out.k = "expr" ->
         IF "unser" \in DOMAIN r.out THEN Verdict(r.id, FALSE, "vocabulary", NoCmp)
         ELSE SemClause(r.id, Ws, r.out.e, TruthDo(G.n \ ToSet(r.s), ToSet(r.s), 0))

\* ---- expression calculator records (C10-C13) -----------------------------------------------------
\* an operator call: the object y0 built must denote the mathematical operation applied to its arguments
JudgeCalc(Ws, r) ==
  LET mt == Math(r.m) IN
  CASE r.out.k = "exc" -> LET c == Cmp(Ws, mt, mt) IN   \* raising is accepted only where the quantity is undefined
                          IF c.ndef = 0 THEN Verdict(r.id, TRUE, "raised-on-undefined", c)
                          ELSE Verdict(r.id, FALSE, "raised", c)
    [] r.out.k = "expr" ->
         IF "unser" \in DOMAIN r.out THEN Verdict(r.id, FALSE, "unserialisable", NoCmp)
         ELSE IF r.m.op = "chain" /\ ~ChainShape(r.out.e) THEN Verdict(r.id, FALSE, "chain-shape", NoCmp)
         ELSE LET c == Cmp(Ws, r.out.e, mt) IN
              IF c.nbad > 0
              THEN LET dv == DevMath(r.m)
                       dw == DevMathE(r.m)
                       c2 == IF dv = mt THEN c ELSE Cmp(Ws, r.out.e, dv)
                       c3 == IF dw = mt THEN c ELSE IF dw = dv THEN c2 ELSE Cmp(Ws, r.out.e, dw) IN
                   IF (c2.nbad = 0 /\ c2.ndef > 0) \/ (c3.nbad = 0 /\ c3.ndef > 0) THEN Verdict(r.id, FALSE, "value-dev-cond", c)
                   ELSE Verdict(r.id, FALSE, "value", c)
              ELSE Verdict(r.id, TRUE, IF c.ndef = 0 THEN "skip-undefined" ELSE "ok", c)
\* canonicalisation (C10): same denotation, claimed for well-scoped presentations
\* a sum may also range over a name its summand does not mention at all (it then counts that name's values): since
\* the repair 54fadbb the library handles these, so they are part of C10's family; ranges that name a variable the
\* summand binds itself, or only uses as a subscript, stay outside (statement and docstrings are silent about them)
RECURSIVE Mentioned(_)
Mentioned(e) ==
  CASE e.t = "P" -> UNION {{v.n} \cup IvNames(v) : v \in TermVars(e)}
    [] e.t = "M" -> UNION {Mentioned(e.es[i]) : i \in DOMAIN e.es}
    [] e.t = "F" -> Mentioned(e.a) \cup Mentioned(e.b)
    [] e.t = "S" -> ToSet(e.r) \cup Mentioned(e.e)
    [] e.t = "Q" -> ToSet(e.dom) \cup ToSet(e.cod)
    [] OTHER -> {}
RECURSIVE LooseScoped(_)
LooseScoped(e) ==
  CASE e.t = "M" -> \A i \in DOMAIN e.es : LooseScoped(e.es[i])
    [] e.t = "F" -> LooseScoped(e.a) /\ LooseScoped(e.b)
    [] e.t = "S" -> (\A x \in ToSet(e.r) : x \in Free(e.e) \/ x \notin Mentioned(e.e)) /\ LooseScoped(e.e)
    [] OTHER -> TRUE
JudgeCanon(Ws, r) ==
  IF ~LooseScoped(r.pre) THEN Verdict(r.id, TRUE, "skip-not-well-scoped", NoCmp)
  ELSE IF HasQ(r.pre) THEN Verdict(r.id, TRUE, "skip-q-factor", NoCmp)
  ELSE CASE r.out.k = "exc" -> \* a presentation that denotes nothing (division by zero at every point) may be refused
                             IF Cmp(Ws, r.pre, r.pre).ndef = 0 THEN Verdict(r.id, TRUE, "raised-on-undefined", NoCmp)
                             ELSE Verdict(r.id, FALSE, "raised", NoCmp)
         [] r.out.k = "expr" ->
              IF "unser" \in DOMAIN r.out THEN Verdict(r.id, FALSE, "unserialisable", NoCmp)
              ELSE LET c == Cmp(Ws, r.out.e, r.pre) IN
                   IF c.nbad > 0 THEN Verdict(r.id, FALSE, "value", c)
                   ELSE Verdict(r.id, TRUE, IF c.ndef = 0 THEN "skip-undefined" ELSE "ok", c)
\* print / parse (C12): parsing succeeds, same denotation; on the un-nested family also the same object and text
\* (records marked pub: every probability atom was built with the public builder P(...) / PP[..](...) from operator
\*  chains, so whatever order the builder gave it *is* the builder's order and the equality clause applies)
\* (objects built with the raw Product / Fraction constructors are not "constructed with the builders and operators":
\*  the parser cannot reproduce an unsorted product; only the meaning clause applies to them)
JudgePP(Ws, r) ==
  IF ~NamesOnce(r.a) THEN Verdict(r.id, TRUE, "skip-name-twice", NoCmp)
  ELSE CASE r.out.k = "exc" -> \* a text that denotes nothing (0/0 at every point) may fail to evaluate
                             IF Cmp(Ws, r.a, r.a).ndef = 0 THEN Verdict(r.id, TRUE, "parse-failed-on-undefined", NoCmp)
                             ELSE Verdict(r.id, FALSE, "parse-failed", NoCmp)
         [] r.out.k = "expr" ->
              IF "unser" \in DOMAIN r.out THEN Verdict(r.id, FALSE, "parse-not-expression", NoCmp)
              ELSE LET c == Cmp(Ws, r.out.e, r.a) IN
                   IF c.nbad > 0 THEN Verdict(r.id, FALSE, "value", c)
                   ELSE IF Unnested(r.a, FALSE) /\ (BuilderOrdered(r.a) \/ ("pub" \in DOMAIN r /\ r.pub)) /\ ~("raw" \in DOMAIN r /\ r.raw) /\ (r.out.e # r.a \/ ~r.out.same_obj \/ ~r.out.same_str)
                        THEN Verdict(r.id, FALSE, "roundtrip-equality", c)
                   ELSE Verdict(r.id, TRUE, IF c.ndef = 0 THEN "skip-undefined" ELSE "ok", c)
\* normal form (C11): two canonical forms that must be identical objects
JudgeSame(r) ==
  IF r.a = r.b /\ r.eq /\ r.str THEN Verdict(r.id, TRUE, "ok", NoCmp)
  ELSE Verdict(r.id, FALSE, "not-identical", NoCmp)

\* transport (C05 / C06): the estimand over the target's observational and the domains' experimental
\* distributions must denote P*(y | do x); without any source domain it is returned exactly when ID answers
JudgeTr(grp, G, Ws, r) ==
  LET X == ToSet(r.x)  Y == ToSet(r.y)
      np == IF "pops" \in DOMAIN grp THEN Len(grp.pops) ELSE 0
      zs == [p \in 1..np |-> ToSet(grp.pops[p].z)]
  IN CASE r.out.k = "exc" -> Verdict(r.id, FALSE, "other-failure", NoCmp)
       [] r.out.k = "mutated" -> Verdict(r.id, FALSE, "side-effect", NoCmp)
       [] r.out.k = "unident" -> IF np = 0 /\ TianOK(G, X, Y) THEN Verdict(r.id, FALSE, "spurious-refusal", NoCmp)
                                 ELSE Verdict(r.id, TRUE, "refused", NoCmp)
       [] r.out.k = "expr" ->
            IF "unser" \in DOMAIN r.out THEN Verdict(r.id, FALSE, "vocabulary", NoCmp)
            ELSE IF ~TransportVocab(r.out.e, G.n, zs) THEN Verdict(r.id, FALSE, "vocabulary", NoCmp)
            ELSE IF np = 0 /\ ~TianOK(G, X, Y) THEN Verdict(r.id, FALSE, "answered-unidentifiable", NoCmp)
            ELSE SemClause(r.id, Ws, r.out.e, TruthDo(X, Y, 0))

\* ---- counterfactual records (C07, C08, C18; family F) --------------------------------------------
\* does some reading the event permits make the estimand denote the target term?  (DESIGN 3.5)
ReadCmp(Ws, e, ev, target) ==
  LET rs == Readings(ev)
      cs == [R \in rs |-> Cmp(Ws, ApplyReading(e, R), target)]
      good == {R \in rs : cs[R].nbad = 0}
  IN IF good # {} THEN cs[Pick(good)] ELSE cs[Pick(rs)]
\* the same with the weaker reading of subscripts added to the candidates
ReadCmpWeak(Ws, e, ev, target) ==
  LET rs == ReadingsSub(ev)
      cands == {ApplyReading(e, R) : R \in rs} \cup {ApplyReadingIv(e, R) : R \in rs}
      cs == [x \in cands |-> Cmp(Ws, x, target)]
      good == {x \in cands : cs[x].nbad = 0}
      \* for a failing record the signature is taken at one fixed candidate (every name at its smallest permitted mark,
      \* subscripts literal), so that it does not depend on how many candidates there are
      R0 == CHOOSE R \in rs : \A R2 \in rs : \A n \in DOMAIN R : R[n] <= R2[n]
  IN IF good # {} THEN cs[Pick(good)] ELSE cs[ApplyReading(e, R0)]
IsZeroEverywhere(Ws, t) == LET c == Cmp(Ws, t, ZeroT) IN c.nbad = 0
\* ID*: an expression for P(event), zero only for impossible events, or the refusal
JudgeStar0(G, Ws, r) ==
  LET truth == EventTerm(r.ev, 0) IN
  CASE r.out.k = "exc" -> Verdict(r.id, FALSE, "other-failure", NoCmp)
    [] r.out.k = "unident" -> Verdict(r.id, TRUE, "refused", NoCmp)
    [] r.out.k = "expr" ->
         IF "unser" \in DOMAIN r.out THEN Verdict(r.id, FALSE, "vocabulary", NoCmp)
         ELSE IF r.out.e.t = "0" THEN
              (IF IsZeroEverywhere(Ws, truth) THEN Verdict(r.id, TRUE, "zero-ok", NoCmp)
               ELSE Verdict(r.id, FALSE, "zero-for-possible-event", NoCmp))
         ELSE IF ~SingleWorldOnly(r.out.e) THEN Verdict(r.id, FALSE, "vocabulary", NoCmp)
         ELSE LET c == ReadCmp(Ws, r.out.e, r.ev, truth) IN
              IF c.nbad > 0 THEN Verdict(r.id, FALSE, "value", c)
              ELSE IF c.ndef = 0 THEN Verdict(r.id, FALSE, "undefined-everywhere", c)
              ELSE Verdict(r.id, TRUE, "ok", c)
\* (the verdict also records whether the reference ID* of IDStar.tla answers this event: a diagnostic field)
JudgeStar(G, Ws, r) ==
  LET v == JudgeStar0(G, Ws, r) IN
  [id |-> v.id, ok |-> v.ok, clause |-> v.clause, c |-> v.c,
   ref |-> IF IsFail(IDStarRef(G, ToSet(r.ev))) THEN "refuses" ELSE "answers"]
\* IDC*: P(outcomes and conditions) / P(conditions); an impossible condition must be rejected, not answered
JudgeCStar0(G, Ws, r) ==
  LET joint == EventTerm(r.ev \o r.cond, 0)
      cond  == EventTerm(r.cond, 0)
      truth == FT(joint, cond)
      impossible == IsZeroEverywhere(Ws, cond)
  IN CASE r.out.k = "exc" -> IF r.out.exc = "ValueError" /\ impossible THEN Verdict(r.id, TRUE, "rejected-impossible-condition", NoCmp)
                             ELSE IF r.out.exc = "ValueError" THEN Verdict(r.id, FALSE, "rejected-possible-condition", NoCmp)
                             ELSE Verdict(r.id, FALSE, "other-failure", NoCmp)
       [] r.out.k = "unident" -> Verdict(r.id, TRUE, "refused", NoCmp)
       [] r.out.k = "expr" ->
            IF impossible THEN Verdict(r.id, FALSE, "answered-impossible-condition", NoCmp)
            ELSE IF "unser" \in DOMAIN r.out THEN Verdict(r.id, FALSE, "vocabulary", NoCmp)
            ELSE IF r.out.e.t = "0" THEN
                 (IF IsZeroEverywhere(Ws, joint) THEN Verdict(r.id, TRUE, "zero-ok", NoCmp)
                  ELSE Verdict(r.id, FALSE, "zero-for-possible-event", NoCmp))
            ELSE IF ~SingleWorldOnly(r.out.e) THEN Verdict(r.id, FALSE, "vocabulary", NoCmp)
            ELSE LET c == ReadCmp(Ws, r.out.e, r.ev \o r.cond, truth) IN
                 IF c.nbad > 0 THEN Verdict(r.id, FALSE, "value", c)
                 ELSE IF c.ndef = 0 THEN Verdict(r.id, FALSE, "undefined-everywhere", c)
                 ELSE Verdict(r.id, TRUE, "ok", c)
\* (diagnostic field: does the reference IDC* of IDStar.tla answer, refuse, or call the condition impossible)
JudgeCStar(G, Ws, r) ==
  LET v == JudgeCStar0(G, Ws, r) IN
  [id |-> v.id, ok |-> v.ok, clause |-> v.clause, c |-> v.c,
   ref |-> IF ~Diag THEN "not-computed"
           ELSE LET ref == IDCStarRef(G, ToSet(r.ev), ToSet(r.cond)) IN
                IF IsFail(ref) THEN "refuses" ELSE IF IsUndef(ref) THEN "undefined" ELSE "answers"]
\* make_counterfactual_graph: out = [k |-> "graph", nodes |-> <<var>>, d |-> << <<i, j>> >>, b |-> ..., ev |-> event]
JudgeCG(G, Ws, r) ==
  LET truth == EventTerm(r.ev, 0) IN
  CASE r.out.k = "exc" -> Verdict(r.id, FALSE, "other-failure", NoCmp)
    [] r.out.k = "inconsistent" -> IF IsZeroEverywhere(Ws, truth) THEN Verdict(r.id, TRUE, "inconsistent-ok", NoCmp)
                                   ELSE Verdict(r.id, FALSE, "inconsistent-for-possible-event", NoCmp)
    [] r.out.k = "graph" ->
         LET m  == Len(r.out.nodes)
             CGr == MkG(1..m, {<<e[1], e[2]>> : e \in ToSet(r.out.d)}, {{e[1], e[2]} : e \in ToSet(r.out.b)})
             idx(v) == {i \in 1..m : r.out.nodes[i].n = v.n /\ ToSet(r.out.nodes[i].iv) = ToSet(v.iv)}
             evn == UNION {idx(r.out.ev[i]) : i \in DOMAIN r.out.ev}
         IN IF \E i \in DOMAIN r.out.ev : idx(r.out.ev[i]) = {} THEN Verdict(r.id, FALSE, "event-variable-not-a-node", NoCmp)
            ELSE IF ~IsAcyclic(CGr) THEN Verdict(r.id, FALSE, "cyclic", NoCmp)
            ELSE IF An(CGr, evn) # CGr.n THEN Verdict(r.id, FALSE, "not-ancestral", NoCmp)
            ELSE LET c == Cmp(Ws, EventTerm(r.out.ev, 0), truth) IN
                 IF c.nbad > 0 THEN Verdict(r.id, FALSE, "value", c)
                 ELSE Verdict(r.id, TRUE, "ok", c)

\* ---- Correa et al. helper routines (C19) -----------------------------------------------------------
\* minimisation: a well-formed variable, subscripts a subset of the input's, the same random variable pointwise
JudgeMin(G, Ws, r) ==
  CASE r.out.k = "exc" -> Verdict(r.id, FALSE, "raised", NoCmp)
    [] r.out.k = "var" ->
         LET o == r.out.v IN
         IF o.n # r.v.n \/ ~(ToSet(o.iv) \subseteq ToSet(r.v.iv)) THEN Verdict(r.id, FALSE, "not-a-sub-variable", NoCmp)
         ELSE IF \E k \in DOMAIN Ws : \E env \in Envs(Ws[k]) : \E ue \in UEps(Ws[k].m[0]) :
                    Ws[k].T[0][WorldOf(Ws[k], r.v, env)][ue][r.v.n] # Ws[k].T[0][WorldOf(Ws[k], o, env)][ue][r.v.n]
              THEN Verdict(r.id, FALSE, "different-random-variable", NoCmp)
         ELSE IF VarKey(o) # VarKey(MinRef(G, r.v)) THEN Verdict(r.id, TRUE, "ok-not-minimal", NoCmp)
         ELSE Verdict(r.id, TRUE, "ok", NoCmp)
\* SIMPLIFY: same probability; 'impossible' only for impossible events
JudgeSimp(G, Ws, r) ==
  LET truth == EventTerm(r.ev, 0) IN
  CASE r.out.k = "exc" -> Verdict(r.id, FALSE, "raised", NoCmp)
    [] r.out.k = "none" -> IF IsZeroEverywhere(Ws, truth) THEN Verdict(r.id, TRUE, "impossible-ok", NoCmp)
                           ELSE Verdict(r.id, FALSE, "impossible-for-possible-event", NoCmp)
    [] r.out.k = "event" -> LET c == Cmp(Ws, EventTerm(r.out.ev, 0), truth) IN
                            IF c.nbad > 0 THEN Verdict(r.id, FALSE, "value", c) ELSE Verdict(r.id, TRUE, "ok", c)
\* ancestors of a counterfactual variable: exactly Definition 2.1
JudgeAnc(G, r) ==
  CASE r.out.k = "exc" -> Verdict(r.id, FALSE, "raised", NoCmp)
    [] r.out.k = "vars" -> IF {VarKey(r.out.vs[i]) : i \in DOMAIN r.out.vs} = AnCtf(G, r.v) THEN Verdict(r.id, TRUE, "ok", NoCmp)
                           ELSE Verdict(r.id, FALSE, "not-the-definition", NoCmp)
\* counterfactual-factor factorisation: the sum-product, read with the returned event, is P(query)
JudgeFact(G, Ws, r) ==
  CASE r.out.k = "exc" -> Verdict(r.id, FALSE, "raised", NoCmp)
    [] r.out.k = "expr" ->
         IF "unser" \in DOMAIN r.out THEN Verdict(r.id, FALSE, "unserialisable", NoCmp)
         ELSE LET c == ReadCmpWeak(Ws, r.out.e, r.out.ev, EventTerm(r.ev, 0)) IN
              IF c.nbad > 0 THEN Verdict(r.id, FALSE, "value", c)
              ELSE IF c.ndef = 0 THEN Verdict(r.id, FALSE, "undefined-everywhere", c)
              ELSE Verdict(r.id, TRUE, "ok", c)

\* ---- counterfactual transportability (C09) ----------------------------------------------------------
\* vocabulary: only terms of a declared source domain (population k >= 1), observational within that domain
RECURSIVE CtfVocab(_, _, _)
CtfVocab(e, V, K) ==
  CASE e.t = "P" -> e.pop \in 1..K /\ \A v \in TermVars(e) : v.n \in V /\ v.iv = <<>>
    [] e.t = "M" -> \A i \in DOMAIN e.es : CtfVocab(e.es[i], V, K)
    [] e.t = "F" -> CtfVocab(e.a, V, K) /\ CtfVocab(e.b, V, K)
    [] e.t = "S" -> ToSet(e.r) \subseteq V /\ CtfVocab(e.e, V, K)
    [] e.t = "Q" -> FALSE
    [] OTHER -> TRUE
JudgeCtf(grp, G, Ws, r) ==
  LET joint == IF r.k = "ctfc" THEN EventTerm(r.ev \o r.cond, 0) ELSE EventTerm(r.ev, 0)
      truth == IF r.k = "ctfc" THEN FT(joint, EventTerm(r.cond, 0)) ELSE joint
  IN CASE r.out.k = "exc" -> Verdict(r.id, FALSE, "other-failure", NoCmp)
       [] r.out.k = "rejected" -> Verdict(r.id, TRUE, "rejected-by-validation", NoCmp)
       [] r.out.k = "none" -> Verdict(r.id, TRUE, "fail", NoCmp)
       [] r.out.k = "zero" -> IF IsZeroEverywhere(Ws, joint) THEN Verdict(r.id, TRUE, "zero-ok", NoCmp)
                              ELSE Verdict(r.id, FALSE, "zero-for-possible-event", NoCmp)
       [] r.out.k = "expr" ->
            IF "unser" \in DOMAIN r.out THEN Verdict(r.id, FALSE, "vocabulary", NoCmp)
            ELSE IF ~CtfVocab(r.out.e, G.n, Len(grp.cdoms)) THEN Verdict(r.id, FALSE, "vocabulary", NoCmp)
            ELSE LET c == ReadCmpWeak(Ws, r.out.e, r.out.ev, truth) IN
                 IF c.nbad > 0 THEN Verdict(r.id, FALSE, "value", c)
                 ELSE IF c.ndef = 0 THEN Verdict(r.id, FALSE, "undefined-everywhere", c)
                 ELSE Verdict(r.id, TRUE, "ok", c)

\* ancestral components: exactly Definition 4.2
JudgeComp(G, r) ==
  CASE r.out.k = "exc" -> Verdict(r.id, FALSE, "raised", NoCmp)
    [] r.out.k = "comps" ->
         LET got == {{VarKey(c[i]) : i \in DOMAIN c} : c \in ToSet(r.out.cs)}
             want == AncestralComponents(G, ToSet(r.w), ToSet(r.x))
         IN IF got = want THEN Verdict(r.id, TRUE, "ok", NoCmp) ELSE Verdict(r.id, FALSE, "not-the-definition", NoCmp)

Judge(G, Ws, r) ==
  CASE r.k = "do"  -> JudgeDo(G, Ws, r)
    [] r.k = "comp"  -> JudgeComp(G, r)
    [] r.k = "min"   -> JudgeMin(G, Ws, r)
    [] r.k = "simp"  -> JudgeSimp(G, Ws, r)
    [] r.k = "anc"   -> JudgeAnc(G, r)
    [] r.k = "fact"  -> JudgeFact(G, Ws, r)
    [] r.k = "star"  -> JudgeStar(G, Ws, r)
    [] r.k = "cstar" -> JudgeCStar(G, Ws, r)
    [] r.k = "cg"    -> JudgeCG(G, Ws, r)
    [] r.k = "calc"  -> JudgeCalc(Ws, r)
    [] r.k = "canon" -> JudgeCanon(Ws, r)
    [] r.k = "pp"    -> JudgePP(Ws, r)
    [] r.k = "same"  -> JudgeSame(r)
    [] r.k = "q"   -> JudgeQ(G, Ws, r)
    [] r.k = "vocab" -> JudgeVocab(G, r)
    [] r.k = "svocab" -> JudgeSVocab(r)
    [] r.k = "cdo" -> JudgeCDo(G, Ws, r)
    [] r.k = "eq"  -> JudgeEq(G, Ws, r)

JudgeGroup(grp) ==
  LET G   == GraphOf(grp)
      sd  == SetToSeq(Seeds)
      dos == UNION {UNION {Dos(t) : t \in RecTerms(grp.recs[i], grp.n)} : i \in DOMAIN grp.recs}
      Ws  == TLCEval([k \in DOMAIN sd |-> Bundle(ModelsOf(grp, G, sd[k]), dos)])
  IN [i \in DOMAIN grp.recs |-> IF grp.recs[i].k = "tr" THEN JudgeTr(grp, G, Ws, grp.recs[i])
                                 ELSE IF grp.recs[i].k \in {"ctfu", "ctfc"} THEN JudgeCtf(grp, G, Ws, grp.recs[i])
                                 ELSE Judge(G, Ws, grp.recs[i])]

Init == gi = 0
Next == /\ gi < Len(Trace)
        /\ gi' = gi + 1
        /\ LET vs == JudgeGroup(Trace[gi + 1]) IN
           \A i \in DOMAIN vs : PrintT(<<"TV", ToJson(vs[i])>>)
Spec == Init /\ [][Next]_vars

\* acceptance: the whole trace was consumed (POSTCONDITION)
Consumed == TLCGet("stats").diameter - 1 = Len(Trace)
=============================================================================

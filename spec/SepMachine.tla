---------------------------- MODULE SepMachine ----------------------------
(***************************************************************************)
(* Design-level check and generator for separation (C04, C15, C20).        *)
(* One behaviour = choose a graph, compute its verdict tables.  The heavy  *)
(* work is in a Next step (TLC evaluates initial states on one thread).    *)
(***************************************************************************)
EXTENDS Separation, TLC, Json, Randomization

CONSTANTS Family, RndN, RndK,
          Grows   \* enable the history action Grow

VARIABLES g, phase, sep, sig, dev

vars == <<g, phase, sep, sig, dev>>

RandomADMGs ==
  LET ds == RandomSetOfSubsets(RndK, (RndN * (RndN - 1)) \div 4, FwdPairs(RndN))
      bs == RandomSetOfSubsets(RndK, RndN \div 2, UPairs(RndN))
  IN  {MkG(1..RndN, d, b) : d \in ds, b \in bs}

Graphs ==
  CASE Family = "A2"  -> AllADMG(2)
    [] Family = "A3"  -> AllADMG(3)
    [] Family = "A4o" -> OrderedADMG(4)
    [] Family = "A4"  -> AllADMG(4)
    [] Family = "M3"  -> AllMixed(3)
    [] Family = "M4c" -> {G \in AllMixed(4) : ~IsAcyclic(G) /\ Cardinality(G.d) <= 5 /\ Cardinality(G.b) <= 1}
    \* fixed 5-node family around the collider 1 -> 3 <- 2 with the descendant chain 3 -> 4 -> 5
    [] Family = "C5"  -> {MkG(1..5, {<<1, 3>>, <<2, 3>>, <<3, 4>>, <<4, 5>>} \cup d2, b) :
                             d2 \in SUBSET {<<1, 2>>, <<1, 5>>, <<2, 4>>},
                             b \in SUBSET {{3, 4}, {3, 5}, {1, 2}}}
    \* fixed 5-node family around the collider 1 -> 3 <- 2 whose middle node has two children
    [] Family = "D5"  -> {MkG(1..5, {<<1, 3>>, <<2, 3>>, <<3, 4>>, <<3, 5>>} \cup d2, b) :
                             d2 \in SUBSET {<<4, 5>>, <<1, 4>>, <<2, 5>>},
                             b \in SUBSET {{1, 3}, {4, 5}, {1, 2}}}
    \* every topologically numbered DAG on 5 nodes (diamonds with tails, bottlenecks before / after parallel routes)
    [] Family = "DAG5o" -> {MkG(1..5, d, {}) : d \in SUBSET FwdPairs(5)}
    \* sparse topologically numbered 5-node ADMGs with exactly one bidirected edge
    [] Family = "B5o" -> {MkG(1..5, d, {b}) : d \in {x \in SUBSET FwdPairs(5) : Cardinality(x) <= 5}, b \in UPairs(5)}
    [] Family = "RND" -> RandomADMGs

Init == /\ g \in Graphs /\ phase = "chosen" /\ sep = {} /\ sig = {} /\ dev = {}

Compute == /\ phase = "chosen"
           /\ phase' = "done"
           /\ g' = g
           /\ sep' = IF IsAcyclic(g) THEN SepTable(g) ELSE {}
           /\ sig' = {t \in Triples(g) : SigmaSep(g, t[1], t[2], t[3])}
           \* triples on which the named deviation (y0's path criterion) differs from the ideal
           /\ dev' = {t \in Triples(g) : SigmaY0Sep(g, t[1], t[2], t[3]) # SigmaSep(g, t[1], t[2], t[3])}

\* History: the same graph object grows by one edge (NxMixedGraph.add_directed_edge / add_undirected_edge) after
\* it has been queried.  The verdict table is a function of the graph alone - nothing computed before the edge was
\* added may survive - and a new edge can only destroy separations.  The harness replays Grow steps on one real
\* object: query every triple on g, add the edge, query every triple again (drive_sep.py, scenario "history").
NewEdges == {[k |-> "d", e |-> p] : p \in {q \in g.n \X g.n : q[1] # q[2] /\ q \notin g.d}}
            \cup {[k |-> "b", e |-> p] : p \in {q \in SUBSET g.n : Cardinality(q) = 2 /\ q \notin g.b}}
GrowTo(x) == IF x.k = "d" THEN MkG(g.n, g.d \cup {x.e}, g.b) ELSE MkG(g.n, g.d, g.b \cup {x.e})
Grow == /\ phase = "done" /\ Grows
        /\ \E x \in NewEdges : LET h == GrowTo(x) IN
              /\ h \in Graphs
              /\ g' = h /\ phase' = "done"
              /\ sep' = IF IsAcyclic(h) THEN SepTable(h) ELSE {}
              /\ sig' = {t \in Triples(h) : SigmaSep(h, t[1], t[2], t[3])}
              /\ dev' = {t \in Triples(h) : SigmaY0Sep(h, t[1], t[2], t[3]) # SigmaSep(h, t[1], t[2], t[3])}

Next == Compute \/ Grow
Spec == Init /\ [][Next]_vars

\* adding an edge never creates a separation (m-separation and sigma-separation are anti-monotone in the edge set)
GrowAntiMonotone == [][(phase = "done" /\ phase' = "done") => (sep' \subseteq sep /\ sig' \subseteq sig)]_vars

Done == phase = "done"

\* three definitions of separation agree on acyclic graphs, and each is symmetric
EquivOnADMG ==
  (Done /\ IsAcyclic(g)) =>
     \A t \in Triples(g) :
        /\ (t \in sep) = DSepMoral(g, t[1], t[2], t[3])
        /\ (t \in sep) = (t \in sig)
        /\ (t \in sep) = MSepPath(g, t[2], t[1], t[3])
        /\ (t \in sep) = DSepMoral(g, t[2], t[1], t[3])
\* sigma-separation: symmetric, never separates adjacent nodes (any mixed graph)
SigmaLaws ==
  Done => \A t \in Triples(g) :
        /\ (t \in sig) = SigmaSep(g, t[2], t[1], t[3])
        /\ Adjacent(g, t[1], t[2]) => t \notin sig
\* the documented shortcut (marry directed co-parents only) is *not* equivalent; this invariant
\* is expected to FAIL and is used only by the self-test to show the model distinguishes them.
ShortcutEquiv ==
  (Done /\ IsAcyclic(g)) =>
     \A t \in Triples(g) : (t \in sep) = DSepDirectedMoralOnly(g, t[1], t[2], t[3])

\* on acyclic graphs with <= 4 nodes the deviation is invisible (it needs a conditioned descendant
\* of a collider at distance >= 2)
DevInvisibleSmallADMG == (Done /\ IsAcyclic(g) /\ Cardinality(g.n) <= 4) => dev = {}

Emit == Done => PrintT(<<"SEP", ToJson([g |-> [n |-> g.n, d |-> g.d, b |-> g.b],
                                          acyclic |-> IsAcyclic(g),
                                          sep |-> sep, sig |-> sig, dev |-> dev,
                                          adj |-> {p \in g.n \X g.n : p[1] < p[2] /\ Adjacent(g, p[1], p[2])},
                                          min |-> MinSizes(g, sep)])>>)
=============================================================================

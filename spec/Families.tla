----------------------------- MODULE Families -----------------------------
(***************************************************************************)
(* Named graph families used as initial states of the machines.            *)
(***************************************************************************)
EXTENDS MixedGraph, Randomization

RandomADMGs(n, k) ==
  LET ds == RandomSetOfSubsets(k, (n * (n - 1)) \div 4, FwdPairs(n))
      bs == RandomSetOfSubsets(k, n \div 2, UPairs(n))
  IN  {MkG(1..n, d, b) : d \in ds, b \in bs}

GraphFamily(f, n, k) ==
  CASE f = "A2"  -> AllADMG(2)
    [] f = "A3"  -> AllADMG(3)
    [] f = "A3o" -> OrderedADMG(3)
    [] f = "A4o" -> OrderedADMG(4)
    [] f = "A4"  -> AllADMG(4)
    [] f = "M3"  -> AllMixed(3)
    \* two chains 1 -> 2 -> 5 and 3 -> 4 -> 5 into one outcome with optional cross edges and confounders: the smallest
    \* shapes on which ID recurses through line 7 twice (512 graphs)
    [] f = "P5"  -> {MkG(1..5, {<<1, 2>>, <<2, 5>>, <<3, 4>>, <<4, 5>>} \cup d2, b) :
                        d2 \in SUBSET {<<1, 3>>, <<1, 4>>, <<2, 4>>},
                        b \in SUBSET {{3, 5}, {1, 3}, {1, 4}, {1, 5}, {2, 4}, {3, 4}}}
    [] f = "RND" -> RandomADMGs(n, k)
=============================================================================

----------------------------- MODULE Families -----------------------------
(***************************************************************************)
(* Named graph families used as initial states of the machines.            *)
(***************************************************************************)
EXTENDS MixedGraph, Randomization

RandomADMGs(n, k) ==
  LET ds == RandomSetOfSubsets(k, (n * (n - 1)) \div 4, FwdPairs(n))
      bs == RandomSetOfSubsets(k, n \div 2, UPairs(n))
  IN  {MkG(1..n, d, b) : d \in ds, b \in bs}

GraphFamily(f, n, k) ==
  CASE f = "A2"  -> AllADMG(2)
    [] f = "A3"  -> AllADMG(3)
    [] f = "A3o" -> OrderedADMG(3)
    [] f = "A4o" -> OrderedADMG(4)
    [] f = "A4"  -> AllADMG(4)
    [] f = "M3"  -> AllMixed(3)
    [] f = "RND" -> RandomADMGs(n, k)
=============================================================================

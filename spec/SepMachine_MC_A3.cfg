SPECIFICATION Spec
CONSTANTS
  Family = "A3"
  RndN = 5
  RndK = 8
  Grows = TRUE
INVARIANT EquivOnADMG
INVARIANT SigmaLaws
PROPERTY GrowAntiMonotone
CHECK_DEADLOCK FALSE

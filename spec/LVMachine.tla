----------------------------- MODULE LVMachine -----------------------------
(***************************************************************************)
(* Evans simplification as a state machine: any applicable rule, any order.*)
(* Invariants: the latent projection onto the observed nodes never changes,*)
(* observed nodes are never removed, and when no rule applies the ADMG     *)
(* read off the DAG *is* the projection of the start.  Layer-1 theorem:    *)
(* m-separation in the projection equals d-separation in the DAG.          *)
(* Generator: every tagged DAG of the family with its projection.          *)
(***************************************************************************)
EXTENDS LVDag, Families, TLC, Json

CONSTANTS Family, RndN, RndK, CheckSep
VARIABLES start, cur
vars == <<start, cur>>

Starts ==
  CASE Family = "T3"  -> TaggedDags(3)
    [] Family = "T4"  -> TaggedDags(4)
    [] Family = "T5"  -> TaggedDags(5)
    [] Family = "T5r" -> LET ds == RandomSetOfSubsets(RndK, 5, FwdPairs(5))
                             ls == RandomSetOfSubsets(IF RndK > 16 THEN 16 ELSE RndK, 2, 1..5)
                         IN {TD(1..5, d, l) : d \in ds, l \in ls}
    [] Family = "T6r" -> LET ds == RandomSetOfSubsets(RndK, 7, FwdPairs(6))
                             ls == RandomSetOfSubsets(IF RndK > 32 THEN 32 ELSE RndK, 2, 1..6)
                         IN {TD(1..6, d, l) : d \in ds, l \in ls}
    \* ADMGs with a set of their nodes additionally tagged latent (evans_simplify(G, latents=L))
    [] Family = "G3"  -> {[ToLV(G) EXCEPT !.lat = @ \cup L] : G \in AllADMG(3), L \in SUBSET (1..3)}
    [] Family = "G4"  -> {[ToLV(G) EXCEPT !.lat = @ \cup L] : G \in OrderedADMG(4), L \in SUBSET (1..4)}

Init == start \in Starts /\ cur = start
Step == cur' \in EvansSucc(cur) /\ start' = start
Spec == Init /\ [][Step]_vars

ProjectionInvariant == Projection(cur) = Projection(start)
ObservedKept        == Obs(cur) = Obs(start)
FinalReadsProjection == Simplified(cur) => FromLV(cur) = Projection(start)
\* separation among observed nodes: the projection is faithful to the DAG (checked on start states)
SepFaithful ==
  (CheckSep /\ cur = start) =>
     LET P == Projection(start)  O == Obs(start) IN
     \A a, b \in O : a < b =>
        \A C \in SUBSET (O \ {a, b}) : MSepPath(P, a, b, C) = DSepMoralDag(AsG(start), a, b, C)

EmitStart == (cur = start) =>
   PrintT(<<"LV", ToJson([n |-> start.n, d |-> start.d, lat |-> start.lat,
                          proj |-> [n |-> Projection(start).n, d |-> Projection(start).d, b |-> Projection(start).b]])>>)
=============================================================================

------------------------------- MODULE IDGen -------------------------------
(***************************************************************************)
(* Generator: every graph of a family with all its ID (or IDC) queries and *)
(* the reference verdict of each; one line per graph, replayed into y0.    *)
(***************************************************************************)
EXTENDS ID, Families, Json

CONSTANTS Family, Mode, RndN, RndK
VARIABLES g, phase
vars == <<g, phase>>

Init == g \in GraphFamily(Family, RndN, RndK) /\ phase = "chosen"
Line(G) ==
  IF Mode = "tian"
  THEN [g |-> [n |-> G.n, d |-> G.d, b |-> G.b],
        \* 5th field: V \ T is ancestral, so that the conditional probability P(T | V \ T) is another expression for Q[T]
        qs |-> {<<p[1], p[2], o, TIdent(G, p[2], p[1]), An(G, G.n \ p[1]) = G.n \ p[1]>> : p \in TianPairs(G), o \in TopoOrders(G)}]
  ELSE IF Mode = "trso"
  THEN [g |-> [n |-> G.n, d |-> G.d, b |-> G.b],
        qs |-> {<<p[1], p[2], {}, ~IsFail(IDRef(G, p[1], p[2]))>> : p \in Queries(G)},
        doms |-> {<<c[1], c[2], TransportNodes(G, c[1], c[2])>> : c \in DomainConfigs(G)}]
  ELSE IF Mode = "id"
  THEN [g |-> [n |-> G.n, d |-> G.d, b |-> G.b],
        \* 5th field: how often line 7 fires on one recursion path (ID.tla L7Depth)
        \* 6th field: another recursive step (line 2, 3, 4 or 7) happens inside a sub-problem created by line 7
        qs |-> {<<p[1], p[2], {}, ~IsFail(IDRef(G, p[1], p[2])), L7Depth(p[2], p[1], G), DeepAfter7(p[2], p[1], G)>> : p \in Queries(G)}]
  ELSE [g |-> [n |-> G.n, d |-> G.d, b |-> G.b],
        \* 5th field: the final ID call of IDC takes another recursive step inside a sub-problem created by line 7
        qs |-> {<<p[1], p[2], p[3], ~IsFail(IDCf(G, p[1], p[2], p[3])),
                  LET f == IDCFinal(G, p[1], p[2], p[3]) IN f[1] # {} /\ DeepAfter7(f[2], f[1], G)>> : p \in CQueries(G)}]
Run == /\ phase = "chosen" /\ phase' = "done" /\ g' = g
       /\ PrintT(<<"IDG", ToJson(Line(g))>>)
Spec == Init /\ [][Run]_vars
=============================================================================

----------------------------- MODULE ExprCalc -----------------------------
(***************************************************************************)
(* Layer 2: the expression calculator.  State = a *math term* m of the     *)
(* free algebra of the public DSL operations; one action per operation.    *)
(* Constructors change the mathematical object (Math(m) is built with the  *)
(* pure term constructors of Sem.tla, no simplification anywhere); every   *)
(* other operation is claimed by the library to be an identity of          *)
(* probability calculus, so Math passes through it unchanged.              *)
(*                                                                         *)
(*   atom(p) one zero | mul(a,b) div(a,b) marg(r,a) cond(r,a) nmarg(r,a)   *)
(*   fsimp(a) ssimp(a) contract(a) rcontract(a) canon(ord,a) pp(a)         *)
(*   chain(reorder,ord,p) fexp(p) bexp(p)        (p an atom)               *)
(*                                                                         *)
(* The machine is a generator (every reachable state is replayed through   *)
(* the real DSL by harness/drive_expr.py) and carries design-level         *)
(* invariants: the reference rewrites RefChain / RefFrac / RefBayes denote *)
(* the atom they expand, on the generic distribution of CalcModel.         *)
(***************************************************************************)
EXTENDS ExprMath, Json

CONSTANTS NNames,     \* names 1..NNames
          AtomSet,    \* which atom alphabet: "small" | "full"
          MaxDepth,
          Seeds,
          Check       \* evaluate the design-level invariants

VARIABLES m, depth
vars == <<m, depth>>

NameSet == 1..NNames

\* ---------------------------------------------------------------- atoms
VM(n, s)      == [n |-> n, s |-> s, iv |-> <<>>]
VIv(n, s, iv) == [n |-> n, s |-> s, iv |-> iv]
Pj(ch)        == PT(ch, <<>>, 0)
Pc(ch, pa)    == PT(ch, pa, 0)

SmallAtoms == {
  Pj(<<V0(1)>>), Pj(<<V0(2)>>), Pj(<<V0(1), V0(2)>>), Pc(<<V0(1)>>, <<V0(2)>>),
  Pj(<<V0(1), V0(2), V0(3)>>), Pc(<<V0(1), V0(2)>>, <<V0(3)>>), Pc(<<V0(3)>>, <<V0(1), V0(2)>>),
  Pc(<<V0(2)>>, <<V0(3)>>) }
MoreAtoms == {
  \* interventional: P[2](1), P[+2](1 | 3), P[-3](1, 2)
  Pj(<<VIv(1, 0, <<<<2, 0>>>>)>>),
  Pc(<<VIv(1, 0, <<<<2, 2>>>>)>>, <<VIv(3, 0, <<<<2, 2>>>>)>>),
  Pj(<<VIv(1, 0, <<<<3, 1>>>>), VIv(2, 0, <<<<3, 1>>>>)>>),
  \* value marks: P(+1 | 2), P(-1, 2), P(2 | +3)
  Pc(<<VM(1, 2)>>, <<V0(2)>>), Pj(<<VM(1, 1), V0(2)>>), Pc(<<V0(2)>>, <<VM(3, 2)>>),
  \* population-tagged
  PT(<<V0(1)>>, <<V0(2)>>, 1), PT(<<V0(2), V0(3)>>, <<>>, 1), PT(<<V0(1)>>, <<>>, 2),
  \* a population-tagged interventional term
  PT(<<VIv(3, 0, <<<<1, 0>>>>)>>, <<VIv(2, 0, <<<<1, 0>>>>)>>, 1),
  \* counterfactual (multi-world) terms: P(+V1 @ (-V2, +V3), V2) and P(-V1 @ (-V2, -V3) | V3)
  \* (they have a meaning in the functional family only: the calculator group is validated with Fam = "F")
  Pj(<<VIv(1, 2, <<<<2, 1>>, <<3, 2>>>>), V0(2)>>),
  Pc(<<VIv(1, 1, <<<<2, 1>>, <<3, 1>>>>)>>, <<V0(3)>>),
  \* nested but unequal intervention sets: P(V1 @ V3, V2 @ (V1, V3))
  Pj(<<VIv(1, 0, <<<<3, 1>>>>), VIv(2, 0, <<<<1, 1>>, <<3, 1>>>>)>>) }
Atoms == IF AtomSet = "small" THEN SmallAtoms ELSE SmallAtoms \cup MoreAtoms

\* (the last two have the same sort key in y0: smallest domain name, smallest codomain name)
QAtoms == {[t |-> "Q", dom |-> <<1, 2>>, cod |-> <<1>>], [t |-> "Q", dom |-> <<1>>, cod |-> <<2>>],
           [t |-> "Q", dom |-> <<2, 3>>, cod |-> <<1>>], [t |-> "Q", dom |-> <<2>>, cod |-> <<1>>]}

\* generic distribution for the calculator: complete DAG 1 -> 2 -> ... over the names, one latent
\* common to all of them (clique layout), two source populations with fresh mechanisms everywhere
CalcGraph == MkG(NameSet, {<<u, v>> \in NameSet \X NameSet : u < v}, {e \in SUBSET NameSet : Cardinality(e) = 2})
CalcModels(seed) ==
  [p \in 0..2 |-> Model(CalcGraph, CliqueLatents(CalcGraph), Binary(CalcGraph), [v \in NameSet |-> p], seed)]
CalcBundle(seed, terms) == Bundle(CalcModels(seed), UNION {Dos(t) : t \in terms})

SameDen(e1, e2) ==
  \A s \in Seeds : LET W == CalcBundle(s, {e1, e2})  c == CmpAt(W, e1, e2) IN c.nbad = 0 /\ c.ndef > 0

\* ---------------------------------------------------------------- the machine
Orders == {<<1, 2, 3>>, <<3, 1, 2>>, <<2, 3, 1>>} \cup (IF NNames > 3 THEN {<<4, 2, 1, 3>>} ELSE {})
FullOrders == {o \in Orders : Len(o) = NNames}
Ranges(x) == (SUBSET MFree(x)) \ {{}}
\* ranges of a sum may also name a variable the summand does not mention (the sum then counts its values)
RangesX(x) == Ranges(x) \cup (IF NameSet \ MFree(x) = {} THEN {}
                              ELSE LET z == Min(NameSet \ MFree(x)) IN {r \cup {z} : r \in Ranges(x)})
Operands == {A(p) : p \in Atoms} \cup {[op |-> "one"]} \cup {A(q) : q \in QAtoms}

Succ(x) ==
     {[op |-> "mul", a |-> x, b |-> y] : y \in Operands}
\cup {[op |-> "mul", a |-> y, b |-> x] : y \in {A(p) : p \in SmallAtoms}}
\cup {[op |-> "div", a |-> x, b |-> y] : y \in Operands}
\cup {[op |-> "div", a |-> y, b |-> x] : y \in {A(p) : p \in SmallAtoms} \cup {[op |-> "one"]}}
\* the raw constructors Fraction(a, b) / Product((a, b)): no flattening, no sorting
\cup {[op |-> "rdiv", a |-> x, b |-> y] : y \in {A(p) : p \in SmallAtoms}}
\cup {[op |-> "rdiv", a |-> y, b |-> x] : y \in {A(p) : p \in SmallAtoms}}
\cup {[op |-> "rmul", a |-> y, b |-> x] : y \in {A(p) : p \in SmallAtoms}}
\cup {[op |-> "marg",  r |-> SetToSeq(r), a |-> x] : r \in RangesX(x)}
\cup (IF HasMarks(Math(x)) THEN {} ELSE {[op |-> "cond",  r |-> SetToSeq(r), a |-> x] : r \in Ranges(x)})
\cup {[op |-> "nmarg", r |-> SetToSeq(r), a |-> x] : r \in Ranges(x)}
\cup {[op |-> o, a |-> x] : o \in {"fsimp", "ssimp", "contract", "rcontract", "pp"}}
\cup {[op |-> "canon", ord |-> o, a |-> x] : o \in FullOrders}
\cup (IF IsAtom(x)
      THEN {[op |-> "chain", reorder |-> b, ord |-> o, a |-> x] : b \in BOOLEAN, o \in FullOrders}
           \cup {[op |-> "fexp", a |-> x], [op |-> "bexp", a |-> x]}
      ELSE {})

Init == /\ m \in Operands \cup {[op |-> "zero"]} /\ depth = 0
Step == /\ depth < MaxDepth
        /\ m' \in Succ(m)
        /\ depth' = depth + 1
Spec == Init /\ [][Step]_vars

\* design-level invariants on atoms: the reference rewrites are identities of probability calculus
RefRewritesSound ==
  (Check /\ depth = 0 /\ IsAtom(m) /\ SingleWorld(m.p)) =>
     /\ \A q \in Perms(m.p.ch) : SameDen(m.p, RefChain(m.p, [i \in DOMAIN m.p.ch |-> m.p.ch[q[i]]]))
     /\ SameDen(m.p, RefFrac(m.p))
     /\ SameDen(m.p, RefBayes(m.p))
\* constructors mean what they say: marginalising everything a conditional term depends on gives 1
\* (sanity of Math for cond: sum over r of cond(r, a) over the remaining variables is 1 where defined)
CondNormalised ==
  (Check /\ m.op = "cond" /\ SingleWorld(Math(m))) =>
     LET e == Math(m)  rest == MFree(m.a) \ ToSet(m.r) IN
     rest = {} \/ ~WellScoped(e) \/
     \A s \in Seeds : LET lhs == ST(SetToSeq(rest), e)
                          W == CalcBundle(s, {lhs})
                      IN CmpAt(W, lhs, OneT).nbad = 0

Emit == PrintT(<<"CALC", ToJson([d |-> depth, m |-> m])>>)
=============================================================================

SPECIFICATION TraceSpec
CONSTANTS
  Family = "A2"
  Limits <- LimitsA
  PairOrder = "any"
INVARIANT TSound
INVARIANT TAtMostOne
INVARIANT Accepted
CHECK_DEADLOCK FALSE

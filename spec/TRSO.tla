-------------------------------- MODULE TRSO --------------------------------
(***************************************************************************)
(* Reference version of Tikka & Karvanen's TRSO (surrogate outcomes and    *)
(* transportability) over the term language of Sem.tla, lines 1-11, and    *)
(* the machine that model-checks it against the multi-domain SCM           *)
(* semantics: one behaviour = choose (G, X, Y, source domains); one step   *)
(* computes the reference estimand and compares it with P*(y | do x).      *)
(*                                                                         *)
(* A frame is (y, x, Pe, I, S, v): outcomes, treatments, the current       *)
(* distribution as a term, the active experiment I, the active domain S    *)
(* (0 = target) and the node set of the current diagram, which is the      *)
(* sub-graph of G induced by v plus the selection nodes of domain S that   *)
(* point into v.  Doms is a sequence of [z |-> experiments, tn |-> nodes   *)
(* with a selection node].                                                 *)
(***************************************************************************)
EXTENDS ID, Families, Json

\* the diagram of domain i over node set v: selection node of t is the extra node 10 + t
Diagram(G, tn, v) ==
  LET Hv == SubG(G, v) IN
  MkG(Hv.n \cup {10 + t : t \in tn \cap v}, Hv.d \cup {<<10 + t, t>> : t \in tn \cap v}, Hv.b)
SelSeparated(G, tn, v, x, y) ==
  LET Hx == RemoveIn(Diagram(G, tn, v), x) IN
  \A t \in tn \cap v : \A yy \in y : MSepPath(Hx, 10 + t, yy, x)

\* joint distribution of the nodes v in domain s under the experiment do(I)
BaseJoint(v, I, s) == PT(VarsI(v, I), <<>>, s)
\* P(w | pred) computed from the current distribution Pe over v
CondOfT(Pe, v, w, pred) ==
  IF Pe.t = "P" /\ Pe.pa = <<>>
  THEN LET iv == Pe.ch[1].iv IN PT(<<VI(w, iv)>>, [i \in DOMAIN SetToSeq(pred) |-> VI(SetToSeq(pred)[i], iv)], Pe.pop)
  ELSE LET rest == v \ (pred \cup {w}) IN FT(SumT(rest, Pe), SumT(rest \cup {w}, Pe))

RECURSIVE TRSOf(_, _, _, _, _, _, _, _)
TRSOf(G, Doms, y, x, Pe, I, S, v) ==
  LET Gv  == SubG(G, v)
      AnY == An(Gv, y)
      W   == (v \ x) \ An(RemoveIn(Gv, x), y)
      GX  == SubG(Gv, v \ x)
      CX  == Districts(GX)
      pi  == TopoMin(Gv)
  IN IF x = {} THEN SumT(v \ y, Pe)                                                            \* line 1
     ELSE IF v \ AnY # {} THEN TRSOf(G, Doms, y, x \cap AnY, SumT(v \ AnY, Pe), I, S, AnY)      \* line 2
     ELSE IF W # {} THEN TRSOf(G, Doms, y, x \cup W, Pe, I, S, v)                               \* line 3
     ELSE IF Cardinality(CX) > 1 THEN                                                          \* line 4
        SumT(v \ (y \cup x),
             ProdT(SeqOfSet(LAMBDA m : TRSOf(G, Doms, District(GX, m), v \ District(GX, m), Pe, I, S, v),
                            {Min(C) : C \in CX})))
     ELSE LET C == Pick(CX)
              \* lines 6-7: a source domain whose selection nodes are separated from y and that experiments on part of x
              usable == IF I = {} THEN {i \in DOMAIN Doms : Doms[i].z \cap x # {} /\ SelSeparated(G, Doms[i].tn, v, x, y)} ELSE {}
              tryDom(i) == LET zi == Doms[i].z \cap x IN
                           TRSOf(G, Doms, y, x \ Doms[i].z, BaseJoint(v \ zi, zi, i), zi, i, v \ zi)
              good == {i \in usable : ~IsFail(tryDom(i))}
          IN IF good # {} THEN tryDom(Min(good))
             ELSE IF Districts(Gv) = {v} THEN Fail                                             \* line 11
             ELSE IF C \in Districts(Gv)                                                       \* line 9
                  THEN SumT(C \ y, ProdT(SeqOfSet(LAMBDA w : CondOfT(Pe, v, w, Before(pi, w)), C)))
             ELSE LET Cp == Pick({D \in Districts(Gv) : C \subseteq D}) IN                     \* line 10
                  \* (y0 refuses here when an experiment is active and a selection node points at a parent of C')
                  IF I # {} /\ S > 0 /\ Pillow(Gv, Cp) \cap Doms[S].tn # {} THEN Fail
                  ELSE TRSOf(G, Doms, y, x \cap Cp, ProdT(SeqOfSet(LAMBDA w : CondOfT(Pe, v, w, Before(pi, w)), Cp)), I, S, Cp)

TRSORef(G, Doms, x, y) == TRSOf(G, Doms, y, x, BaseJoint(G.n, {}, 0), {}, 0, G.n)

\* Which lines the reference passes through, and where: the set of <<line, in a source domain, after a line 10 of the
\* same domain>> over the whole recursion (structure only, same case analysis as TRSOf).  The generators use it to find
\* the rare inputs on which, e.g., line 2 runs inside a source domain on a distribution that line 10 produced.
RECURSIVE TRSOSteps(_, _, _, _, _, _, _, _)
TRSOSteps(G, Doms, y, x, I, S, v, after10) ==
  LET Gv  == SubG(G, v)
      AnY == An(Gv, y)
      W   == (v \ x) \ An(RemoveIn(Gv, x), y)
      GX  == SubG(Gv, v \ x)
      CX  == Districts(GX)
      here(l) == {<<l, S > 0, after10>>}
  IN IF x = {} THEN here(1)
     ELSE IF v \ AnY # {} THEN here(2) \cup TRSOSteps(G, Doms, y, x \cap AnY, I, S, AnY, after10)
     ELSE IF W # {} THEN here(3) \cup TRSOSteps(G, Doms, y, x \cup W, I, S, v, after10)
     ELSE IF Cardinality(CX) > 1 THEN
        here(4) \cup UNION {TRSOSteps(G, Doms, District(GX, m), v \ District(GX, m), I, S, v, after10) : m \in {Min(C) : C \in CX}}
     ELSE LET C == Pick(CX)
              usable == IF I = {} THEN {i \in DOMAIN Doms : Doms[i].z \cap x # {} /\ SelSeparated(G, Doms[i].tn, v, x, y)} ELSE {}
              tryDom(i) == LET zi == Doms[i].z \cap x IN
                           TRSOf(G, Doms, y, x \ Doms[i].z, BaseJoint(v \ zi, zi, i), zi, i, v \ zi)
              good == {i \in usable : ~IsFail(tryDom(i))}
          IN IF good # {} THEN LET i == Min(good)  zi == Doms[i].z \cap x IN
                               here(6) \cup TRSOSteps(G, Doms, y, x \ Doms[i].z, zi, i, v \ zi, FALSE)
             ELSE IF Districts(Gv) = {v} THEN here(11)
             ELSE IF C \in Districts(Gv) THEN here(9)
             ELSE LET Cp == Pick({D \in Districts(Gv) : C \subseteq D}) IN
                  IF I # {} /\ S > 0 /\ Pillow(Gv, Cp) \cap Doms[S].tn # {} THEN here(11)
                  ELSE here(10) \cup TRSOSteps(G, Doms, y, x \cap Cp, I, S, Cp, TRUE)
TRSOStepsRef(G, Doms, x, y) == TRSOSteps(G, Doms, y, x, {}, 0, G.n, FALSE)

\* ---------------------------------------------------------------- machine
CONSTANTS Family, RndN, RndK, Seeds, MaxDomains
VARIABLES q, phase, res, cmp
vars == <<q, phase, res, cmp>>

DomOf(G, c) == [z |-> c[1], w |-> c[2], tn |-> TransportNodes(G, c[1], c[2])]
Inputs == UNION {{[g |-> G, x |-> p[1], y |-> p[2], doms |-> ds] :
                     p \in Queries(G),
                     ds \in {<<>>} \cup {<<DomOf(G, c)>> : c \in DomainConfigs(G)}
                            \cup (IF MaxDomains >= 2
                                  THEN {<<DomOf(G, c), DomOf(G, e)>> : c \in {cc \in DomainConfigs(G) : cc[1] # {}},
                                                                     e \in {<<{Max(G.n)}, {Min(G.n)}>>}}
                                  ELSE {})} :
                 G \in GraphFamily(Family, RndN, RndK)}
Init == /\ q \in Inputs /\ phase = "chosen" /\ res = Fail /\ cmp = <<>>
Run == /\ phase = "chosen" /\ phase' = "done" /\ q' = q
       /\ LET r == TRSORef(q.g, q.doms, q.x, q.y) IN
          /\ res' = r
          /\ cmp' = IF IsFail(r) THEN <<>>
                    ELSE LET sd == SetToSeq(Seeds)
                             tr == TruthDo(q.x, q.y, 0)
                         IN [k \in DOMAIN sd |->
                              LET models == [p \in 0..Len(q.doms) |->
                                              Model(q.g, EdgeLatents(q.g), Binary(q.g),
                                                    IF p = 0 THEN NoTag(q.g) ELSE [n \in q.g.n |-> IF n \in q.doms[p].tn THEN p ELSE 0],
                                                    sd[k])]
                                  W == Bundle(models, Dos(r) \cup Dos(tr))
                              IN CmpAt(W, r, tr)]
Spec == Init /\ [][Run]_vars
Done == phase = "done"

\* soundness: whenever the reference answers, the estimand denotes the target effect in every multi-domain family
Sound == (Done /\ ~IsFail(res)) => \A k \in DOMAIN cmp : cmp[k].nbad = 0 /\ cmp[k].ndef > 0
\* without a usable experiment TRSO is ID: it answers exactly when the effect is identifiable
ReducesToID == (Done /\ q.doms = <<>>) => (IsFail(res) = ~TianOK(q.g, q.x, q.y))
\* vocabulary (C06): target terms observational, domain terms under a subset of the domain's experiments
Vocab == (Done /\ ~IsFail(res)) => TransportVocab(res, q.g.n, [p \in DOMAIN q.doms |-> q.doms[p].z])
\* surrogates help: some query that ID refuses is answered with a source domain (non-vacuity, expected to FAIL as an invariant)
NeverHelps == (Done /\ q.doms # <<>> /\ ~TianOK(q.g, q.x, q.y)) => IsFail(res)

\* ---------------------------------------------------------------- generator of rare-path problems
\* Topologically numbered 4-node ADMGs (at most 3 bidirected edges) x single-outcome queries x one source domain with one surrogate outcome whose
\* experiments meet the treatments: the problems on which the reference takes another step (lines 2, 3, 4 or 10 again)
\* inside a source domain after a line 10 of that domain.  One line per graph that has any.
SparseOrdered(N) == {MkG(1..N, d, b) : d \in SUBSET FwdPairs(N), b \in {x \in SUBSET UPairs(N) : Cardinality(x) <= 3}}
RareSteps(st) == {s \in st : s[2] /\ s[3] /\ s[1] \in {2, 3, 4, 10}}
RareProblems(G) ==
  UNION {{[x |-> p[1], y |-> p[2], z |-> c[1], w |-> c[2], steps |-> RareSteps(TRSOStepsRef(G, <<DomOf(G, c)>>, p[1], p[2]))] :
             c \in {cc \in DomainConfigs(G) : Cardinality(cc[2]) = 1 /\ cc[1] \cap p[1] # {}}} :
         p \in {pp \in Queries(G) : Cardinality(pp[2]) = 1}}
GenInit == /\ q \in {[g |-> G] : G \in SparseOrdered(4)} /\ phase = "chosen" /\ res = Fail /\ cmp = <<>>
GenRun == /\ phase = "chosen" /\ phase' = "done" /\ UNCHANGED <<q, res, cmp>>
          /\ LET ps == {r \in RareProblems(q.g) : r.steps # {}} IN
             ps # {} => PrintT(<<"TRX", ToJson([g |-> [n |-> q.g.n, d |-> q.g.d, b |-> q.g.b], ps |-> ps])>>)
GenSpec == GenInit /\ [][GenRun]_vars
=============================================================================

------------------------------- MODULE SepFile -------------------------------
(***************************************************************************)
(* SepMachine on the graphs of a file (FileFamily): same actions, same     *)
(* design-level invariants, same verdict tables, other initial states.     *)
(***************************************************************************)
EXTENDS SepMachine, FileFamily

InitF == /\ g \in FileGraphs /\ phase = "chosen" /\ sep = {} /\ sig = {} /\ dev = {}
SpecF == InitF /\ [][Compute]_vars
=============================================================================

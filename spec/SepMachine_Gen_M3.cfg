SPECIFICATION Spec
CONSTANTS
  Family = "M3"
  RndN = 5
  RndK = 8
  Grows = FALSE
INVARIANT Emit
CHECK_DEADLOCK FALSE

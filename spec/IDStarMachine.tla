--------------------------- MODULE IDStarMachine ---------------------------
(***************************************************************************)
(* Design-level check of the reference ID* (IDStar.tla) against the        *)
(* functional model family F: one behaviour = choose (G, event); one step  *)
(* computes the reference answer and compares it with P(event).            *)
(***************************************************************************)
EXTENDS IDStar, Families, Json

CONSTANTS Family, RndN, RndK, Seeds, MaxAtoms, Slice,   \* Slice: keep every Slice-th two-atom event
          Check,                                         \* FALSE: generator only (no semantic comparison)
          Mode                                           \* "star": ID* on events; "cstar": IDC* on (outcome | condition)
VARIABLES q, phase, res, cmp
vars == <<q, phase, res, cmp>>

Events(V) == LET A == AtomsOn(V, 2, FALSE)
                 e1 == {{a} : a \in A}
                 e2 == IF MaxAtoms >= 2
                       THEN {{p[1], p[2]} : p \in {pp \in A \X A : AtomCode(pp[1]) < AtomCode(pp[2]) /\ KeyOf(pp[1]) # KeyOf(pp[2])
                                                                    /\ (AtomCode(pp[1]) + 7 * AtomCode(pp[2])) % Slice = 0}}
                       ELSE {}
             IN e1 \cup e2
\* conditional queries: every two-atom event of the slice split both ways, and every three-atom extension of a sub-slice
CondQueries(V) ==
  LET A == AtomsOn(V, 2, FALSE)
      e2 == {e \in Events(V) : Cardinality(e) = 2}
      two == UNION {{[gam |-> {a}, del |-> e \ {a}] : a \in e} : e \in e2}
      three == IF MaxAtoms >= 3
               THEN UNION {UNION {{[gam |-> {a}, del |-> e], [gam |-> e, del |-> {a}]} :
                                   a \in {x \in A : KeyOf(x) \notin {KeyOf(b) : b \in e} /\ (AtomCode(x) % 5) = 0}} :
                           e \in {f \in e2 : \E p \in f : (AtomCode(p) % 3) = 0}}
               ELSE {}
  IN two \cup three
Init == /\ q \in (IF Mode = "star"
                  THEN {[g |-> G, ev |-> e] : G \in GraphFamily(Family, RndN, RndK), e \in Events(1..3)}
                  ELSE {[g |-> G, ev |-> c.gam, cond |-> c.del] : G \in GraphFamily(Family, RndN, RndK), c \in CondQueries(1..3)})
        /\ phase = "chosen" /\ res = Fail /\ cmp = <<>>
Run == /\ phase = "chosen" /\ phase' = "done" /\ q' = q
       /\ LET r == IF Mode = "star" THEN IDStarRef(q.g, q.ev) ELSE IDCStarRef(q.g, q.ev, q.cond) IN
          /\ res' = r
          /\ cmp' = IF IsFail(r) \/ IsUndef(r) \/ ~Check THEN <<>>
                    ELSE LET sd == SetToSeq(Seeds)
                             tr == IF Mode = "star" THEN EventTerm(SetToSeqBy(q.ev), 0)
                                   ELSE FT(EventTerm(SetToSeqBy(q.ev \cup q.cond), 0), EventTerm(SetToSeqBy(q.cond), 0))
                         IN [k \in DOMAIN sd |->
                              LET M == ModelF(q.g, EdgeLatents(q.g), Binary(q.g), NoTag(q.g), sd[k])
                                  W == Bundle([p \in {0} |-> M], Dos(r) \cup Dos(tr))
                              IN CmpAt(W, r, tr)]
Spec == Init /\ [][Run]_vars
Done == phase = "done"

Sound == (Done /\ Check /\ ~IsFail(res) /\ ~IsUndef(res)) => \A k \in DOMAIN cmp : cmp[k].nbad = 0
\* "undefined" is answered only when the condition is impossible in every model of the family
UndefOnlyIfImpossible ==
  (Done /\ Check /\ Mode = "cstar" /\ IsUndef(res)) =>
     \A s \in Seeds : LET M == ModelF(q.g, EdgeLatents(q.g), Binary(q.g), NoTag(q.g), s)
                          tr == EventTerm(SetToSeqBy(q.cond), 0)
                          W == Bundle([p \in {0} |-> M], Dos(tr))
                      IN CmpAt(W, tr, ZeroT).nbad = 0
\* zero is returned only for impossible events is part of Sound (ZeroT compared with P(event)); single-world terms only
Vocab == (Done /\ ~IsFail(res) /\ ~IsUndef(res)) => SingleWorldOnly(res)
\* non-vacuity of line 4 (expected to FAIL as an invariant): some conditional query is answered by a term that is not a ratio
Rule2NeverHelps == (Done /\ Mode = "cstar" /\ ~IsFail(res) /\ ~IsUndef(res)) => res.t \in {"F", "0", "1"}
\* non-vacuity: the reference answers some events with two different worlds (expected to FAIL as an invariant)
NeverAnswersTwoWorlds == (Done /\ Mode = "star" /\ Cardinality({WorldOfA(a) : a \in q.ev}) > 1) => (IsFail(res) \/ res.t \in {"0", "1"})
Emit == Done => PrintT(<<"IDS", ToJson([d |-> q.g.d, b |-> q.g.b, ev |-> SetToSeqBy(q.ev), ans |-> ~IsFail(res)])>>)
=============================================================================

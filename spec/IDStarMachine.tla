--------------------------- MODULE IDStarMachine ---------------------------
(***************************************************************************)
(* Design-level check of the reference ID* (IDStar.tla) against the        *)
(* functional model family F: one behaviour = choose (G, event); one step  *)
(* computes the reference answer and compares it with P(event).            *)
(***************************************************************************)
EXTENDS IDStar, Families, Json

CONSTANTS Family, RndN, RndK, Seeds, MaxAtoms, Slice,   \* Slice: keep every Slice-th two-atom event
          Check                                          \* FALSE: generator only (no semantic comparison)
VARIABLES q, phase, res, cmp
vars == <<q, phase, res, cmp>>

Events(V) == LET A == AtomsOn(V, 2, FALSE)
                 e1 == {{a} : a \in A}
                 e2 == IF MaxAtoms >= 2
                       THEN {{p[1], p[2]} : p \in {pp \in A \X A : AtomCode(pp[1]) < AtomCode(pp[2]) /\ KeyOf(pp[1]) # KeyOf(pp[2])
                                                                    /\ (AtomCode(pp[1]) + 7 * AtomCode(pp[2])) % Slice = 0}}
                       ELSE {}
             IN e1 \cup e2
Init == /\ q \in {[g |-> G, ev |-> e] : G \in GraphFamily(Family, RndN, RndK), e \in Events(1..3)}
        /\ phase = "chosen" /\ res = Fail /\ cmp = <<>>
Run == /\ phase = "chosen" /\ phase' = "done" /\ q' = q
       /\ LET r == IDStarRef(q.g, q.ev) IN
          /\ res' = r
          /\ cmp' = IF IsFail(r) \/ ~Check THEN <<>>
                    ELSE LET sd == SetToSeq(Seeds)
                             tr == EventTerm(SetToSeqBy(q.ev), 0)
                         IN [k \in DOMAIN sd |->
                              LET M == ModelF(q.g, EdgeLatents(q.g), Binary(q.g), NoTag(q.g), sd[k])
                                  W == Bundle([p \in {0} |-> M], Dos(r) \cup Dos(tr))
                              IN CmpAt(W, r, tr)]
Spec == Init /\ [][Run]_vars
Done == phase = "done"

Sound == (Done /\ Check /\ ~IsFail(res)) => \A k \in DOMAIN cmp : cmp[k].nbad = 0
\* zero is returned only for impossible events is part of Sound (ZeroT compared with P(event)); single-world terms only
Vocab == (Done /\ ~IsFail(res)) => SingleWorldOnly(res)
\* non-vacuity: the reference answers some events with two different worlds (expected to FAIL as an invariant)
NeverAnswersTwoWorlds == (Done /\ Cardinality({WorldOfA(a) : a \in q.ev}) > 1) => (IsFail(res) \/ res.t \in {"0", "1"})
Emit == Done => PrintT(<<"IDS", ToJson([d |-> q.g.d, b |-> q.g.b, ev |-> SetToSeqBy(q.ev), ans |-> ~IsFail(res)])>>)
=============================================================================

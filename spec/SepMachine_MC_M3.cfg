SPECIFICATION Spec
CONSTANTS
  Family = "M3"
  RndN = 5
  RndK = 8
INVARIANT EquivOnADMG
INVARIANT SigmaLaws
CHECK_DEADLOCK FALSE

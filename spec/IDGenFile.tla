------------------------------ MODULE IDGenFile ------------------------------
(***************************************************************************)
(* IDGen on the graphs of a file (FileFamily): the repository's example    *)
(* catalogue as a family of ID / IDC inputs.  Queries: every pair of       *)
(* disjoint non-empty X, Y with at most MaxQ nodes together (the full      *)
(* query set of a 7-8 node graph has thousands of members), conditional    *)
(* queries with one condition.  Verdicts are the reference's, as always.   *)
(***************************************************************************)
EXTENDS IDGen, FileFamily

CONSTANT MaxQ

SmallQueries(G) == {p \in Queries(G) : Cardinality(p[1]) + Cardinality(p[2]) <= MaxQ}
SmallCQueries(G) == {<<p[1], p[2], {z}>> : p \in {q \in Queries(G) : Cardinality(q[1]) = 1 /\ Cardinality(q[2]) = 1},
                                            z \in G.n} 
LineF(G) ==
  IF Mode = "id"
  THEN [g |-> [n |-> G.n, d |-> G.d, b |-> G.b],
        qs |-> {<<p[1], p[2], {}, ~IsFail(IDRef(G, p[1], p[2])), L7Depth(p[2], p[1], G), DeepAfter7(p[2], p[1], G)>> : p \in SmallQueries(G)}]
  ELSE [g |-> [n |-> G.n, d |-> G.d, b |-> G.b],
        qs |-> {<<p[1], p[2], p[3], ~IsFail(IDCf(G, p[1], p[2], p[3])), FALSE>> :
                   p \in {c \in SmallCQueries(G) : c[3] \cap (c[1] \cup c[2]) = {}}}]
InitF == g \in FileGraphs /\ phase = "chosen"
RunF == /\ phase = "chosen" /\ phase' = "done" /\ g' = g
        /\ PrintT(<<"IDG", ToJson(LineF(g))>>)
SpecF == InitF /\ [][RunF]_vars
=============================================================================

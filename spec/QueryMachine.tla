---------------------------- MODULE QueryMachine ----------------------------
(***************************************************************************)
(* Layer 2 machine for the query objects the identification algorithms are *)
(* called with (y0.algorithm.identify.utils.Query / Identification).  The  *)
(* state is the query the program currently holds, (outcomes, treatments,  *)
(* conditions) as three sets of names; every public transformer is one     *)
(* action that *returns a new object*: the objects created earlier stay    *)
(* alive (`objs`) and must keep the value they were created with -- this   *)
(* is the "leaves the caller's query objects unchanged" clause of C02 as   *)
(* an action property, and it is what IDC's loop (exchange one condition   *)
(* with an action, recurse) and ID's line 3 (with_treatments) rely on.     *)
(* `hist` records the behaviour; the harness replays it through the real   *)
(* objects and compares the projected state of *every* live object after   *)
(* every step.                                                             *)
(***************************************************************************)
EXTENDS Naturals, FiniteSets, Sequences, TLC, Json

CONSTANTS N,        \* names 1..N
          Depth     \* number of steps of a behaviour

VARIABLES q,        \* current query [y, x, z]
          objs,     \* sequence of all query values created so far (the live objects)
          hist

vars == <<q, objs, hist>>
Names == 1..N

Q(y, x, z) == [y |-> y, x |-> x, z |-> z]
Disjoint(r) == r.y \cap r.x = {} /\ r.y \cap r.z = {} /\ r.x \cap r.z = {}
Vars(r) == r.y \cup r.x \cup r.z

\* valid initial queries: non-empty outcomes, pairwise disjoint parts
InitQueries == {Q(y, x, z) : y \in (SUBSET Names) \ {{}}, x \in SUBSET Names, z \in SUBSET Names}
InitOK(r) == Disjoint(r)

Init == /\ q \in {r \in InitQueries : InitOK(r)}
        /\ objs = <<q>>
        /\ hist = <<[op |-> "init", arg |-> {}, q |-> q, res |-> "ok"]>>

\* a transformer that returns a new object
Ret(op, S, r) == /\ q' = r
                 /\ objs' = Append(objs, r)
                 /\ hist' = Append(hist, [op |-> op, arg |-> S, q |-> r, res |-> "ok"])
\* a documented refusal (ValueError): nothing is created, nothing changes
Refuse(op, S) == /\ UNCHANGED <<q, objs>>
                 /\ hist' = Append(hist, [op |-> op, arg |-> S, q |-> q, res |-> "ValueError"])
\* an observation
Obs(op, r) == /\ UNCHANGED <<q, objs>>
              /\ hist' = Append(hist, [op |-> op, arg |-> {}, q |-> q, res |-> r])

\* "Move the condition variable(s) to the treatments" (rule 2 of do-calculus, read right to left in IDC)
ExchObsAct(S) == IF S \subseteq q.z THEN Ret("exchange_observation_with_action", S, Q(q.y, q.x \cup S, q.z \ S))
                 ELSE Refuse("exchange_observation_with_action", S)
\* "Move the treatment variable(s) to the conditions"
ExchActObs(S) == IF S \subseteq q.x THEN Ret("exchange_action_with_observation", S, Q(q.y, q.x \ S, q.z \cup S))
                 ELSE Refuse("exchange_action_with_observation", S)
\* "additional treatments" (ID line 3)
WithTreatments(S) == Ret("with_treatments", S, Q(q.y, q.x \cup S, q.z))
\* "Move the conditions to outcomes"
Uncondition == Ret("uncondition", {}, Q(q.y \cup q.z, q.x, {}))
\* the query as a probability term: P_x(y, z) -- children and the common intervention set
ExprOf(r) == [ch |-> r.y \cup r.z, iv |-> r.x]
Expression == Obs("expression", ExprOf(q))
\* reading a query back from its own term gives the unconditioned query
FromExpr(e) == Q(e.ch, e.iv, {})
RoundTrip == Obs("from_expression", FromExpr(ExprOf(q)))

Next == /\ Len(hist) <= Depth
        /\ \/ \E S \in (SUBSET Names) \ {{}} : ExchObsAct(S) \/ ExchActObs(S)
           \/ \E S \in SUBSET Names : WithTreatments(S)
           \/ Uncondition \/ Expression \/ RoundTrip

Spec == Init /\ [][Next]_vars

\* ------------------------------------------------------------------ design-level properties
TypeOK == /\ q.y \subseteq Names /\ q.x \subseteq Names /\ q.z \subseteq Names
          /\ Len(objs) >= 1 /\ objs[Len(objs)] = q
\* live objects never change: the sequence of created values only grows
Persistent == [][\A i \in 1..Len(objs) : objs'[i] = objs[i]]_vars
\* exchanges and uncondition move names between the parts, never add or lose one, and keep the parts disjoint
Op == hist[Len(hist)].op
Conserve == [][(hist'[Len(hist')].op \in {"exchange_observation_with_action", "exchange_action_with_observation", "uncondition"})
               => (Vars(q') = Vars(q) /\ (Disjoint(q) => Disjoint(q')) /\ q.y \subseteq q'.y)]_vars
\* the two exchanges are inverse to each other on a disjoint query
ExchInverse ==
  \A i \in 2..(Len(hist) - 1) :
     LET a == hist[i]  b == hist[i + 1] IN
     (a.op = "exchange_observation_with_action" /\ b.op = "exchange_action_with_observation"
        /\ a.res = "ok" /\ b.res = "ok" /\ a.arg = b.arg /\ Disjoint(hist[i - 1].q))
     => b.q = hist[i - 1].q
\* treatments only ever grow under with_treatments; outcomes are never lost by any operation
OutcomesKept == [][q.y \subseteq q'.y]_vars
\* the term of a query mentions exactly its names
ExprVocab == LET e == ExprOf(q) IN e.ch \cup e.iv = Vars(q)

\* ------------------------------------------------------------------ behaviour export
Emit == (Len(hist) = Depth + 1) => PrintT(<<"BEH", ToJson(hist)>>)
Bound == Len(hist) <= Depth + 1
=============================================================================

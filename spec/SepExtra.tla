------------------------------ MODULE SepExtra ------------------------------
(***************************************************************************)
(* Further initial-state families for SepMachine (same actions, same       *)
(* invariants, same verdict tables).                                       *)
(*   BC5: 5-node ADMGs around the bidirected chain 2 <-> 3 <-> 4, with     *)
(*        optional bidirected edges 1 <-> 2, 4 <-> 5, 1 <-> 5 and up to    *)
(*        four directed edges that put arrowheads at the ends of the chain *)
(*        or make the chain nodes ancestors of the end nodes: the smallest *)
(*        shapes with a collider path  u *-> c1 <-> c2 <-> c3 <-* v  of    *)
(*        three consecutive bidirected colliders (moralisation has to      *)
(*        marry the latent parents of *adjacent* bidirected edges, so      *)
(*        eliminating the latents one step deep is not enough).            *)
(***************************************************************************)
EXTENDS SepMachine

BC5D == {<<1, 2>>, <<5, 4>>, <<2, 5>>, <<3, 5>>, <<4, 1>>, <<3, 1>>, <<1, 5>>}
BC5Graphs == {G \in {MkG(1..5, d, {{2, 3}, {3, 4}} \cup b) :
                        d \in {x \in SUBSET BC5D : Cardinality(x) <= 4},
                        b \in SUBSET {{1, 2}, {4, 5}, {1, 5}}} : IsAcyclic(G)}

ExtraGraphs == CASE Family = "BC5" -> BC5Graphs
InitX == /\ g \in ExtraGraphs /\ phase = "chosen" /\ sep = {} /\ sig = {} /\ dev = {}
SpecX == InitX /\ [][Compute]_vars
=============================================================================

----------------------------- MODULE GraphOps -----------------------------
(***************************************************************************)
(* Layer 2 machine for C14: the state is "the graph the program currently  *)
(* holds"; every public surgery / query operation of NxMixedGraph is one   *)
(* action.  Graph-valued operations replace the state, set-valued ones are *)
(* observations that must leave it unchanged.  `hist` records the          *)
(* behaviour so that a leaf state *is* the behaviour that the harness      *)
(* replays through the real object (replay direction).                     *)
(***************************************************************************)
EXTENDS MixedGraph, TLC, Json, Randomization

CONSTANTS Family,      \* "M3" | "M2" | "A4" | "RND"
          Depth,       \* length of the behaviours
          RndN,        \* number of nodes for the random family
          RndK,        \* number of random initial graphs
          Mutators     \* enable the in-place mutators (walk configurations)

VARIABLES g, hist

vars == <<g, hist>>

RandomGraphs ==
  LET ds == RandomSetOfSubsets(RndK, 3, FwdPairs(RndN))
      bs == RandomSetOfSubsets(RndK, 2, UPairs(RndN))
  IN  {MkG(1..RndN, d, b) : d \in ds, b \in bs}

InitGraphs ==
  CASE Family = "M2" -> AllMixed(2)
    [] Family = "M3" -> AllMixed(3)
    [] Family = "A4" -> OrderedADMG(4)
    [] Family = "RND" -> RandomGraphs
    \* cyclic directed parts on 4 nodes (used with the directed-path operation only, see Next)
    [] Family = "M4c" -> {G \in {MkG(1..4, d, b) : d \in {dd \in SUBSET Pairs(4) : Cardinality(dd) \in 3..5},
                                                  b \in {{}, {{1, 2}}, {{3, 4}}}} : ~IsAcyclic(G)}

JG(G) == [n |-> G.n, d |-> G.d, b |-> G.b]

Init == /\ g \in InitGraphs
        /\ hist = <<[op |-> "init", arg |-> {}, g |-> JG(g), res |-> {}]>>

\* graph-valued operation: the program now holds the result
Step(op, S, G2) == /\ g' = G2
                   /\ hist' = Append(hist, [op |-> op, arg |-> S, g |-> JG(G2), res |-> {}])
\* observation: the receiver must be unchanged
Obs(op, S, r) == /\ g' = g
                 /\ hist' = Append(hist, [op |-> op, arg |-> S, g |-> JG(g), res |-> r])

Acyc == IsAcyclic(g)
SmallEnough == Cardinality(g.n) <= 4

Subgraph(S)     == Step("subgraph", S, SubG(g, S))
RemIn(S)        == Step("remove_in_edges", S, RemoveIn(g, S))
RemOut(S)       == Step("remove_out_edges", S, RemoveOut(g, S))
RemNodes(S)     == Step("remove_nodes_from", S, RemoveNodes(g, S))
Moral           == Step("moralize", {}, Moralize(g))
InterveneA(S)   == S # {} /\ Obs("intervene", S, JG(Intervene(g, S)))
Ancestors(S)    == Obs("ancestors_inclusive", S, An(g, S))
Descendants(S)  == Obs("descendants_inclusive", S, De(g, S))
DistrictsA      == Obs("districts", {}, Districts(g))
PillowA(S)      == Obs("get_markov_pillow", S, Pillow(g, S))
BlanketA(S)     == S # {} /\ Obs("get_markov_blanket", S, Blanket(g, S))
DisorientA      == Obs("disorient", {}, Disorient(g))
\* topological_sort(): any valid order is acceptable -> the observation is the set of all of them
TopoA           == Acyc /\ SmallEnough /\ Obs("topological_sort", {}, TopoOrders(g))
\* pre(nodes, order) with an explicit valid order (the deterministic smallest-first one) ...
PreOrdA(S)      == Acyc /\ S # {} /\
                   LET o == TopoMin(g) IN Obs("pre_order", <<S, o>>, PreOf(o, S))
\* ... and pre(nodes) with the library's own order: any valid order's prefix is acceptable
PreA(S)         == Acyc /\ SmallEnough /\ S # {} /\
                   Obs("pre", S, {PreOf(o, S) : o \in TopoOrders(g)})
\* nodes on directed paths; sources and targets disjoint (a node that is both is excluded:
\* neither statement nor docstring fix its meaning)
PathsA(S, T)    == S # {} /\ T # {} /\ S \cap T = {} /\ SmallEnough /\
                   Obs("get_nodes_in_directed_paths", <<S, T>>, NodesOnDirectedPaths(g, S, T))

\* in-place mutators of the live object (add_node / add_directed_edge / add_undirected_edge): the program keeps holding
\* the same object, whose value is now the larger graph; every later observation must be the one of the *current*
\* value (nothing computed before the mutation may survive).  Only in walks (Mutators), never in the depth-1 family.
MaxNode == IF g.n = {} THEN 1 ELSE Max(g.n) + 1
AddNodeA(v)     == v \notin g.n /\ Step("add_node", {v}, MkG(g.n \cup {v}, g.d, g.b))
AddDirA(u, v)   == u # v /\ <<u, v>> \notin g.d /\
                   Step("add_directed_edge", <<u, v>>, MkG(g.n \cup {u, v}, g.d \cup {<<u, v>>}, g.b))
AddBiA(u, v)    == u < v /\ {u, v} \notin g.b /\
                   Step("add_undirected_edge", <<u, v>>, MkG(g.n \cup {u, v}, g.d, g.b \cup {{u, v}}))
Mutate == /\ Mutators
          /\ \/ AddNodeA(MaxNode)
             \/ \E u \in g.n \cup {MaxNode} : \E v \in g.n \cup {MaxNode} : AddDirA(u, v) \/ AddBiA(u, v)

\* further helpers (diagnostic observations)
DistrictOfA(v)  == Obs("get_district", {v}, District(g, v))
NoEffectA(S, T) == S # {} /\ T # {} /\ S \cap T = {} /\ Obs("get_no_effect_on_outcomes", <<S, T>>, NoEffectOnOutcomes(g, S, T))
IntAncA(S, T)   == T # {} /\ S \cap T = {} /\ Obs("get_intervened_ancestors", <<S, T>>, IntervenedAncestors(g, S, T))
AFixA(v)        == Obs("is_a_fixable", {v}, {AFixable(g, v)})
PFixA(v)        == Obs("is_p_fixable", {v}, {PFixable(g, v)})

Next ==
  /\ Len(hist) <= Depth
  /\ IF Family = "M4c"
     THEN \E s \in g.n : \E t \in g.n : PathsA({s}, {t}) \/ (\E s2 \in g.n : s2 > s /\ PathsA({s, s2}, {t}))
     ELSE
     \/ \E S \in SUBSET g.n :
          \/ Subgraph(S) \/ RemIn(S) \/ RemOut(S) \/ RemNodes(S) \/ InterveneA(S)
          \/ Ancestors(S) \/ Descendants(S) \/ PillowA(S) \/ BlanketA(S)
          \/ PreOrdA(S) \/ PreA(S)
          \/ \E T \in SUBSET g.n : PathsA(S, T)
     \/ Moral \/ DistrictsA \/ DisorientA \/ TopoA
     \/ \E v \in g.n : DistrictOfA(v) \/ AFixA(v) \/ PFixA(v)
     \/ Mutate
     \/ \E S \in SUBSET g.n : \E T \in SUBSET g.n : NoEffectA(S, T) \/ IntAncA(S, T)

Spec == Init /\ [][Next]_vars

\* ------------------------------------------------------------------ design-level invariants
TypeOK == WellFormed(g)
Laws   == LawPartition(g) /\ \A S \in SUBSET g.n : LawClosure(g, S) /\ LawSurgery(g, S)
\* node sets only ever shrink along a behaviour, observations never change the state
NodesShrink == [][(hist'[Len(hist')].op \notin {"add_node", "add_directed_edge", "add_undirected_edge"}) => g'.n \subseteq g.n]_vars
\* a mutator adds exactly what it names and keeps everything else
MutatorsGrow == [][(hist'[Len(hist')].op \in {"add_node", "add_directed_edge", "add_undirected_edge"})
                   => (g.n \subseteq g'.n /\ g.d \subseteq g'.d /\ g.b \subseteq g'.b
                       /\ Cardinality(g'.d) + Cardinality(g'.b) <= Cardinality(g.d) + Cardinality(g.b) + 1
                       /\ Cardinality(g'.n) <= Cardinality(g.n) + 2)]_vars

\* ------------------------------------------------------------------ behaviour export
Emit == (Len(hist) = Depth + 1) => PrintT(<<"BEH", ToJson(hist)>>)
Bound == Len(hist) <= Depth + 1
=============================================================================

"""Driver for C16 (replay direction): TLC-generated tagged DAGs / ADMGs vs the real LV-DAG code.

usage: drive_lv.py <mode: simplify|evans|roundtrip> <in.json> <out.json>
Expected projections are the ones TLC printed from LVDag.tla (Projection); this script only compares sets.
"""

from __future__ import annotations

import json
import sys

import networkx as nx

from ser import build_graph, exc_class, norm_graph, num, project, var


ALT_TAG = "is_hidden"   # second scenario: the caller's own tag key (every routine takes tag=)


def lv_to_nx(rec, order=0, tag=None):
    from y0.graph import DEFAULT_TAG

    g = nx.DiGraph()
    nodes = sorted(rec["n"], reverse=bool(order))
    for i in nodes:
        g.add_node(var(i), **{tag or DEFAULT_TAG: i in rec["lat"]})
    for u, v in (sorted(rec["d"], reverse=bool(order))):
        g.add_edge(var(u), var(v))
    return g


def snap(g, tag=None):
    from y0.graph import DEFAULT_TAG

    return (sorted(str(n) for n in g.nodes()), sorted((str(u), str(v)) for u, v in g.edges()),
            sorted(str(n) for n, d in g.nodes(data=True) if d.get(tag or DEFAULT_TAG)))


def cmp_proj(got, rec):
    want = norm_graph(rec["proj"])
    have = {k: got[k] for k in ("n", "d", "b")}
    return have == want and got["dn"] == got["un"] == got["n"], have, want


def run_simplify(rec, fails, stats):
    from y0.algorithm.simplify_latent import simplify_latent_dag
    from y0.graph import DEFAULT_TAG, NxMixedGraph

    for order in (0, 1):
        stats["calls"] += 1
        tag = ALT_TAG if order else None
        kw = {"tag": tag} if tag else {}
        g = lv_to_nx(rec, order, tag)
        try:
            res = simplify_latent_dag(g, **kw)
            out = res.graph
            first = snap(out, tag)
            observed_after = {n for n, d in out.nodes(data=True) if not d[tag or DEFAULT_TAG]}
            admg = NxMixedGraph.from_latent_variable_dag(out, **kw)
            again = simplify_latent_dag(out.copy(), **kw).graph
            second = snap(again, tag)
        except Exception as exc:  # noqa: BLE001
            fails.append({"rec": rec, "order": order, "clause": "raised", "exc": exc_class(exc), "msg": str(exc)[:200]})
            continue
        obs = {var(i) for i in rec["n"] if i not in rec["lat"]}
        if observed_after != obs:
            fails.append({"rec": rec, "order": order, "clause": "observed-not-kept",
                          "got": sorted(map(str, observed_after))})
            continue
        # idempotence up to the names of re-created latents: compare the observed part and the latent child sets
        def shape(s, graph):
            lat = set(s[2])
            kids = sorted(sorted(str(c) for c in graph.successors(n)) for n in graph.nodes() if str(n) in lat)
            return ([x for x in s[0] if x not in lat], [e for e in s[1] if e[0] not in lat], kids)
        if shape(first, out) != shape(second, again):
            fails.append({"rec": rec, "order": order, "clause": "not-idempotent", "first": first, "second": second})
        try:
            ok, have, want = cmp_proj(project(admg), rec)
        except KeyError as exc:
            fails.append({"rec": rec, "order": order, "clause": "latent-in-result", "msg": str(exc)})
            continue
        if not ok:
            fails.append({"rec": rec, "order": order, "clause": "projection", "got": have, "want": want})


def admg_of(rec):
    """Recover (G, L) from a record of family G3/G4: latents >= 100 stand for bidirected edges."""
    nodes = [i for i in rec["n"] if i < 100]
    d = [e for e in rec["d"] if e[0] < 100]
    b = []
    for lat in (i for i in rec["n"] if i >= 100):
        kids = sorted(e[1] for e in rec["d"] if e[0] == lat)
        b.append(kids)
    return {"n": nodes, "d": d, "b": b}, [i for i in rec["lat"] if i < 100]


def run_evans(rec, fails, stats):
    from y0.algorithm.simplify_latent import evans_simplify

    g, lat = admg_of(rec)
    for order in (0, 1):
        stats["calls"] += 1
        graph = build_graph(g, order)
        before = project(graph)
        try:
            res = evans_simplify(graph, latents={var(i) for i in lat} if lat else None, **({"tag": ALT_TAG} if order else {}))
            ok, have, want = cmp_proj(project(res), rec)
        except Exception as exc:  # noqa: BLE001
            fails.append({"rec": rec, "g": g, "latents": lat, "order": order, "clause": "raised", "exc": exc_class(exc),
                          "msg": str(exc)[:200]})
            continue
        if project(graph) != before:
            fails.append({"rec": rec, "g": g, "latents": lat, "order": order, "clause": "receiver-changed"})
        elif not ok:
            fails.append({"rec": rec, "g": g, "latents": lat, "order": order, "clause": "projection", "got": have, "want": want})


def run_roundtrip(rec, fails, stats):
    from y0.graph import NxMixedGraph

    g, lat = admg_of(rec)
    if lat:
        return
    # the conversion's own options (latent names, first latent number, tag key) must not matter
    options = ({}, {"prefix": "L_", "start": 1, "tag": "is_hidden"}, {"start": 3})
    for order in (0, 1, 2):
        stats["calls"] += 1
        graph = build_graph(g, order)
        kw = options[order]
        try:
            lv = graph.to_latent_variable_dag(**kw)
            back = NxMixedGraph.from_latent_variable_dag(lv, **({"tag": kw["tag"]} if "tag" in kw else {}))
            got = project(back)
        except Exception as exc:  # noqa: BLE001
            fails.append({"g": g, "order": order, "options": kw, "clause": "raised", "exc": exc_class(exc), "msg": str(exc)[:200]})
            continue
        have = {k: got[k] for k in ("n", "d", "b")}
        if have != norm_graph(g) or back != graph or got["dn"] != got["n"] or got["un"] != got["n"]:
            fails.append({"g": g, "order": order, "options": kw, "clause": "roundtrip", "got": have, "equal": back == graph})
            continue
        # the LV-DAG itself is ToLV(G) of LVDag.tla: one parentless latent with exactly the two endpoints per bidirected edge
        tag = kw.get("tag", "hidden")
        lat_nodes = [n for n, d in lv.nodes(data=True) if d.get(tag)]
        obs_nodes = [n for n, d in lv.nodes(data=True) if not d.get(tag)]
        kids = sorted(sorted(num(c) for c in lv.successors(n)) for n in lat_nodes)
        if (sorted(num(n) for n in obs_nodes) != sorted(g["n"]) or kids != sorted(sorted(e) for e in g["b"])
                or any(lv.in_degree(n) for n in lat_nodes)
                or sorted([num(u), num(v)] for u, v in lv.edges() if u in obs_nodes) != sorted(list(e) for e in g["d"])):
            fails.append({"g": g, "order": order, "options": kw, "clause": "lv-dag-shape", "latent_children": kids})


def main():
    mode, src, dst = sys.argv[1:4]
    fn = {"simplify": run_simplify, "evans": run_evans, "roundtrip": run_roundtrip}[mode]
    fails, stats = [], {"calls": 0}
    for rec in json.load(open(src)):
        fn(rec, fails, stats)
    json.dump({"fails": fails, "stats": stats}, open(dst, "w"))


if __name__ == "__main__":
    main()

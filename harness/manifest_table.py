"""Per-property manifest texts."""
CHECKS = {
    "C07": {
        "text": "Sem.tla's functional model family F (exogenous noise shared across worlds) gives every conjunction of counterfactual atoms its probability (multi-world terms, PTermMulti); CFMachine.tla model-checks the family against the axioms of structural counterfactuals (effectiveness, composition, exclusion, normalisation) and against the ID reference on every 3-node ADMG. id_star is run on a fixed TLC-generated family of events (CFGen.tla: every single atom, a graph-dependent slice of all two-atom conjunctions, a slice of the three-atom events that span three worlds, every reflexive single atom and a slice of pairs with one; <= 2 signed subscripts) and TLC validates the outcome: an expression must equal P(event) on every base assignment under a reading the event permits (CF.tla Readings), Zero only for impossible events, Unidentifiable accepted, anything else rejected.",
        "ref": "DESIGN.md section 4/C07, 14.4",
        "note": "Design level: IDStar.tla is a reference ID* (make-cg with Lemma 24/25, lines 1-9, sound partial version) model-checked against family F on all ordered 3-node ADMGs x (single atoms + a slice of pairs); every record's verdict also says whether the reference answers, and the evidence cross-tabulates y0's outcome with it. The implementation has known unrepaired defects (about a third of the two-atom events): failing inputs are listed by (graph, event) -> semantic signature in known_findings_C07.json; a listed input failing with a different signature or any unlisted input failing is a violation. Family fixed, independent of VERIF_SEED. 3-node graphs only.",
        "technique": "TLA+ specification of counterfactual semantics (functional SCMs) model-checked by TLC; TLC-generated events; trace validation of implementation outputs by TLC; known findings keyed by input and semantic signature",
    },
    "C08": {
        "text": "As C07 for idc_star: every split of a TLC-generated 2-/3-atom conjunction into (outcomes, conditions); TLC validates value = P(outcomes and conditions)/P(conditions) where the condition is possible, Zero only for impossible joint events, ValueError exactly for impossible conditions, Unidentifiable accepted. IDStar.tla holds a reference ID* and IDC* (make-cg, lines 1-9 / 1-5 with rule 2 in the counterfactual graph), model-checked Sound / Vocab / UndefOnlyIfImpossible against family F; the thorough tier cross-tabulates y0's outcome with the reference's.",
        "ref": "DESIGN.md section 4/C08, 14.4",
        "note": "Known findings by (input, signature) in known_findings_C08.json (IDC* inherits ID*'s and Expression.conditional's defects). Fixed family, 3-node graphs.",
        "technique": "TLA+ counterfactual semantics + TLC trace validation; known findings keyed by input and semantic signature",
    },
    "C09": {
        "text": "TV.tla builds, for every recorded problem, a multi-domain functional family: domain k = target with fresh mechanisms at the nodes carrying a selection node and at its policy variables, edges into policy variables removed, every other mechanism, latent and noise shared. unconditional_cft / conditional_cft are run (after the library's own validator, whose rejections are accepted) on TLC-generated events over 3-node ADMGs with 1-2 domains; TLC validates that the returned expression over the domains' distributions, read with the returned event (weakest reading: outcome values, subscript values), equals the target (conditional) probability; Zero only for impossible events; 'fail' accepted; any exception after validation rejected; vocabulary restricted to declared domains.",
        "ref": "DESIGN.md section 4/C09, 14.4",
        "note": "Policies without parents only; 3-node targets; fixed deterministic family with known findings by (input, signature) in known_findings_C09.json (ctfTR raises after validation on most conditional inputs and strips subscripts from the returned event).",
        "technique": "TLA+ multi-domain counterfactual semantics; TLC-generated events; trace validation by TLC; known findings keyed by input and semantic signature",
    },
    "C18": {
        "text": "make_counterfactual_graph is run on TLC-generated conjunctions of 1-3 counterfactual atoms over every second (thorough: every) 3-node ADMG; TLC validates in the functional family F that the relabelled event has the same probability as the original on every base assignment, that 'inconsistent' is reported only for events of probability zero, and (MixedGraph.tla on the serialised graph) that the returned graph is acyclic, equals the ancestors of the relabelled event's variables and contains them. CFMachine.tla model-checks the family F itself. Besides slices of all 1-3 atom events the family contains every merge-chain event of each graph (CF.tla MergeChainEvents: one variable in three worlds that differ in a causally irrelevant subscript).",
        "ref": "DESIGN.md section 4/C18",
        "note": "3-node graphs, <= 2 signed subscripts per atom, no reflexive subscripts; seeded three-atom events on top of the fixed family.",
        "technique": "TLA+ counterfactual semantics (functional SCMs) model-checked by TLC; trace validation of implementation outputs by TLC",
    },
    "C19": {
        "text": "CF.tla transcribes Definition 2.1 (ancestors of a counterfactual variable) and the minimisation ||Y_x|| of Correa, Lee & Bareinboim. minimize_counterfactual (well-formed, sub-variable, pointwise the same random variable over all noise configurations of family F), get_ancestors_of_counterfactual (set equality with the definition), simplify (same probability; 'impossible' only for impossible events) and do_counterfactual_factor_factorization (sum-product read with the returned event equals P(query)) are run on TLC-generated variables and events over 3-node ADMGs, including reflexive subscripts, irrelevant subscripts and repeated variables, and validated by TLC.",
        "ref": "DESIGN.md section 4/C19, 14.4",
        "note": "get_ancestral_components (Definition 4.2) is not replayed. Known findings by (routine, input, signature) in known_findings_C19.json (simplify on reflexive atoms, subscript values in the factorisation). Fixed family, 3-node graphs.",
        "technique": "TLA+ transcription of the definitions + counterfactual semantics; trace validation by TLC; known findings keyed by input and semantic signature",
    },
    "C05": {
        "text": "The multi-domain semantics is part of the specification: ID.tla derives the selection diagram (TransportNodes) and TV.tla builds, for every recorded problem, a family of generic SCMs in which source domain k shares every mechanism with the target except at the transport nodes; PP[pi*] terms are evaluated in the target, PP[pi_k][Z'] terms in domain k under do(Z'). Every estimand identify_target_outcomes returns on TLC-generated problems (graph x query x 0-3 domains (Z_k, W_k)) is validated by TLC against P*(y|do x) on all assignments; without a source domain the outcome class must agree with the ID oracle (TianOK); exceptions and mutation of the caller's graph are rejected. TRSO.tla is the reference algorithm (lines 1-11, model-checked Sound / ReducesToID / Vocab); its TRSOSteps / GenSpec enumerate every single-domain 4-node problem on which the reference recurses again inside a source domain after line 10, all of which are replayed.",
        "ref": "DESIGN.md section 4/C05",
        "note": "Design level: TRSO.tla (reference TRSO, lines 1-11) is model-checked sound, reducing to ID without domains and vocabulary-preserving on all ordered 3-node ADMGs x queries x 20 single-domain configurations (thorough: plus two-domain configurations). Conformance: 3-node ADMGs exhaustively over graphs and queries with seeded domain configurations, seeded 4-node problems. No completeness claim beyond the no-domain case.",
        "technique": "TLA+ specification of multi-domain SCM semantics and selection diagrams; TLC-generated problems; trace validation of implementation outputs by TLC",
    },
    "C16": {
        "text": "LVDag.tla defines tagged DAGs, the ADMG<->LV-DAG conversions, the latent projection by its path definition and Evans' four rules; LVMachine.tla applies any applicable rule in any order and TLC model-checks, on every tagged DAG with <= 4 nodes and every ADMG <= 3 nodes with extra latents, that the projection is invariant, observed nodes are kept, a fully simplified DAG reads as the projection of the start, and m-separation in the projection equals d-separation in the DAG. TLC prints every start state with its projection; simplify_latent_dag (observed kept, idempotent, read-off ADMG = projection), evans_simplify(G, latents=L) and the ADMG->LV-DAG->ADMG round trip (isolated nodes included; default and non-default prefix / start / tag options, the LV-DAG itself compared with ToLV) are replayed under 2-3 insertion orders and compared.",
        "ref": "DESIGN.md section 4/C16",
        "note": "Exhaustive for tagged DAGs <= 4 nodes (thorough: 5), ADMGs <= 4 nodes x every latent subset; seeded 5-/6-node DAGs. The identifiability consequence rests on C02's oracle being a function of the ADMG; taheri_design is not replayed.",
        "technique": "TLA+ state machine of Evans' rules model-checked by TLC against the path definition of latent projection; TLC-generated start states and projections replayed into the implementation",
    },
    "C10": {
        "text": "ExprCalc.tla is a state machine whose state is a math term of the free algebra of the public DSL operations; Math(m) (ExprMath.tla) is its meaning built with pure term constructors and evaluated with Den of Sem.tla on a generic distribution. TLC enumerates the terms (BFS to depth 1-2, random walks deeper); the driver builds each with the real operators and canonicalises it under 3 orderings; TLC validates (TV.tla kind canon) that the canonical object denotes the same function of all value assignments as the presentation, and that distinct presentations which the library declares canonically equal (same canonical form) are semantically equal (kind eq).",
        "ref": "DESIGN.md section 4/C10-C13",
        "note": "Well-scoped, Q-free presentations over 3 names (plain, conditional, interventional, value-marked, population-tagged atoms; products, sums, fractions, one, zero). Identity testing in GF(32749), 2-3 models.",
        "technique": "TLA+ state machine of the expression calculator; TLC-generated behaviours replayed into the DSL; outputs validated as traces by TLC against the denotational semantics",
    },
    "C11": {
        "text": "ExprPerm.tla: state = a presentation, action Permute (reorder factors, re-nest products, reorder variables on either side of the bar), model-checked to preserve the denotation (PermSound). Every presentation TLC reaches from 7 bases within 3 Permute steps is built with the raw constructors and canonicalised under 2 orderings and 3-5 PYTHONHASHSEED values; TLC compares the serialised canonical form with that of the base (identical object, text, hash) and checks idempotence of every canonicalisation (also for the calculator terms of C10).",
        "ref": "DESIGN.md section 4/C10-C13",
        "note": "7 bases (3-5 factors, nested sums/fractions, population-tagged and interventional factors, 4 names); the hash-seed clause is covered by re-running the same TLC-generated behaviours under several seeds, not by modelling hash().",
        "technique": "TLA+ permutation machine (TLC: denotation-preserving), generated presentations replayed into canonicalize, canonical forms compared by TLC",
    },
    "C12": {
        "text": "For every TLC-generated calculator term the driver prints the really-built object (to_y0), parses the text (parse_y0) and logs the parsed object; TLC validates (TV.tla kind pp) that parsing succeeded, that the parsed object denotes the same quantity on all assignments of a generic distribution, and - when ExprMath.tla's Unnested/BuilderOrdered predicates put the object in the statement's restricted family - that it is structurally equal to the original and prints to the same text.",
        "ref": "DESIGN.md section 4/C10-C13",
        "note": "Python's eval is one opaque action. Distributions mentioning a name twice are skipped.",
        "technique": "TLA+ calculator machine as generator; print/parse round trip of the implementation validated as a trace by TLC against the denotational semantics",
    },
    "C13": {
        "text": "Every operator of the DSL (*, /, marginalize, conditional, normalize_marginalize, Fraction.simplify, Sum.simplify, chain_expand with and without reordering, fraction_expand, bayes_expand, contract, recursive_contract) is an action of ExprCalc.tla; constructors change Math(m), rewrite helpers must leave it unchanged. The reference rewrites (RefChain for every child order, RefFrac, RefBayes) and the normalisation of cond are model-checked by TLC on all atoms; every generated term is executed with the real operator and TLC validates that the returned object denotes Math(m) on all assignments, that chain expansions have single-child factors (ranges of a marginalisation may name a variable the summand does not mention), and that an exception occurs only where the quantity is undefined everywhere. A named deviation DevMath attributes the one known finding by call site.",
        "ref": "DESIGN.md section 4/C10-C13, 5.2",
        "note": "Known finding cond-bound-vars is reported (KNOWN-FINDING) and everything else gated. Depth-1 exhaustive over 19 atoms, seeded slice of depth 2 and random walks to depth 3-5.",
        "technique": "TLA+ state machine with one action per operator, TLC model checking of the reference identities, TLC-generated behaviours replayed into the implementation and validated by TLC; named implementation-shaped deviation",
    },
    "C17": {
        "text": "ID.tla transcribes Tian & Pearl's Lemma 1, 3, 4 and IDENTIFY as term constructors (QLemma1, QLemma4, TianIdentify); TLC model-checks that the result denotes Q[C]=P(C|do(V\\C)) and fails exactly when TIdent says so on every 3-node ADMG, district, admissible C and topological order (IDMachine mode tian: Sound, TianComplete). The real compute_c_factor (Lemma 1 and Lemma 4 paths), identify_district_variables and compute_ancestral_set_q_value are run on every TLC-generated (G, T, C, order) and each returned term is validated by TLC (TV.tla kind q) against Q[S] on generic SCMs.",
        "ref": "DESIGN.md section 4/C17",
        "note": "Exhaustive on 3-node ADMGs x all (T, C, order); seeded slices of 4- and 5-node graphs. A refusal is always accepted (the statement allows failure); refusals where the reference succeeds are counted in the evidence.",
        "technique": "TLA+ transcription of the lemmas model-checked against SCM semantics by TLC; trace validation of implementation outputs by TLC",
    },
    "C01": {
        "text": "Sem.tla gives the SCM semantics (generic stochastic models compatible with a mixed graph, evaluated in GF(32749)) and the denotation Den of y0's expression language; ID.tla is a reference ID carrying the current distribution as a term. TLC model-checks the reference sound against the semantics on every 3-node ADMG and query (IDMachine: Sound). Every TLC-generated (G,X,Y) is then run through the real identify_outcomes/identify and the returned estimand is validated by TLC as a trace (TV.tla): Den(estimand) must equal P(Y|do X) by truncated factorisation at every value assignment of every variable (so a dependence on a free variable outside X and Y is a failure) for 2-3 independent generic models. Families: all 3-node ADMGs x queries, seeded 4-/5-node samples, and every query of the two-chain 5-node family P5 on which the reference applies line 7 twice on one path (ID.tla L7Depth); driver shards run under PYTHONHASHSEED 0-3.",
        "ref": "DESIGN.md section 4/C01",
        "note": "Exhaustive on all 200 three-node ADMGs x 12 queries; seeded samples of the 4096 ordered four-node ADMGs x 50 queries and of five-node graphs; binary variables (one ternary, clique latents in thorough). Polynomial identity testing: a wrong estimand escapes with probability <= deg/32749 per model. Trusted: TLC, Sem.tla.",
        "technique": "TLA+ specification of SCM semantics + reference algorithm, TLC model checking (soundness invariant), trace validation of the implementation's outputs by TLC",
    },
    "C02": {
        "text": "ID.tla contains three independent characterisations of identifiability (the reference ID's verdict, the Tian/Huang-Valtorta criterion TianOK, brute-force hedge existence HedgeEx); TLC model-checks them equal on every 3-node ADMG and query (IDMachine: Complete). The outcome class of the real identify_outcomes/identify (estimand, unidentifiable, any other exception, caller's graph or query changed) for every query on every ADMG with <= 4 nodes is validated by TLC (TV.tla) against TianOK, under 2 insertion orders and both APIs.",
        "ref": "DESIGN.md section 4/C02",
        "note": "Exhaustive <= 4 nodes (quick: the 4096 topologically numbered 4-node ADMGs, thorough: all 34752), seeded 5- and 6-node graphs. Side-effect clause compares the projected caller graph and query sets before/after in the driver. Trusted: TLC, TianOK.",
        "technique": "TLA+ specification with three verdict characterisations model-checked equal by TLC; outcome classes of the implementation validated as traces by TLC",
    },
    "C03": {
        "text": "ID.tla defines a reference IDC on top of the reference ID and true m-separation (Separation.tla); TLC model-checks that its result denotes P(Y,Z|do X)/P(Z|do X) on all 3-node ADMGs and all pairwise disjoint (X,Y,Z) (IDMachine mode idc: Sound). Every TLC-generated query is run through identify_outcomes(conditions=Z)/idc and the estimand is validated by TLC (TV.tla) against the conditional interventional truth at all assignments of 2-3 generic models; any outcome other than an estimand or the refusal is rejected.",
        "ref": "DESIGN.md section 4/C03",
        "note": "Exhaustive on 3-node ADMGs (3600 queries), seeded sample of 4-node ADMGs x 110 queries, seeded 5-node graphs. Points where P(Z|do X)=0 in GF(p) are skipped. No completeness claim.",
        "technique": "TLA+ specification + TLC model checking of the reference IDC; trace validation of implementation outputs by TLC",
    },
    "C06": {
        "text": "The vocabulary predicates are part of the specification (ID.tla: ObsOnly) and invariants of the reference machines (IDMachine: Vocab, model-checked on all 3-node inputs). Every estimand returned by the real ID and IDC on the TLC-generated query families is serialised and TLC evaluates the predicate on it (TV.tla kind vocab); estimands that mention names outside the graph cannot be serialised and are reported as vocabulary failures.",
        "ref": "DESIGN.md section 4/C06",
        "note": "Covers ID, IDC (3-node exhaustive, 4-node seeded) and TRSO (TransportVocab: population-tagged terms only, target terms observational, domain terms with one common subscript set inside Z_k, never a selection node); the ID* / IDC* parts join when their drivers exist (evidence lists estimands inspected per algorithm).",
        "technique": "TLA+ predicates as invariants of the reference machines (TLC) and as trace-validation clauses on implementation outputs",
    },
    "C14": {
        "text": "GraphOps.tla (one action per public NxMixedGraph operation) is model-checked by TLC against the algebraic laws of MixedGraph.tla on all 512 mixed graphs with 3 nodes; TLC then generates every depth-1 behaviour over those graphs (all node subsets, all 15 operations) plus seeded walks of depth 3-4 on 3- and 5-node graphs, and each behaviour is replayed through the real NxMixedGraph under 3 insertion orders with the projected (nodes, directed, bidirected) state compared with the spec state after every action and the receiver compared before/after.",
        "ref": "DESIGN.md section 4/C14",
        "note": "Exhaustive only up to 3 nodes (cycles included); 5-node walks are sampled. Trusted: TLC, the set-theoretic definitions in MixedGraph.tla, the 60-line projection in harness/ser.py.",
        "technique": "TLA+ state machine + TLC model checking; TLC-generated behaviours replayed into the implementation (spec-to-code conformance)",
    },
    "C04": {
        "text": "Separation.tla defines m-separation three independent ways (open simple paths; ancestral moral graph of the canonical latent DAG; sigma-reachability over (node, arrival mark)); TLC proves them equal and symmetric on every ADMG with <= 4 nodes (SepMachine MC) and prints each graph's verdict table; the real are_d_separated is then replayed for every ordered pair, every conditioning set (with duplicates/shuffled conditions) and 3 scenarios against those tables (sorted insertion; SepMachine's Grow action replayed on ONE object - query all, add an edge in place, query all again, action property GrowAntiMonotone model-checked; observed nodes named like the library's latent parents u_0, u_1, ...), and the returned judgement's fields are checked for canonical form. Families: all 3-node ADMGs, all topologically numbered 4-node ADMGs, all 1024 topologically numbered 5-node DAGs, seeded 5-node ADMGs.",
        "ref": "DESIGN.md section 4/C04",
        "note": "Exhaustive on all 200 three-node and all 4096 topologically numbered four-node ADMGs (thorough: all 34752 labelled ones), seeded samples on 5 nodes. Trusted: TLC and the path definition MSepPath.",
        "technique": "TLA+ specification of separation, TLC model checking of definition equivalence, TLC-generated verdict tables replayed against the implementation",
    },
    "C15": {
        "text": "From TLC's m-separation tables (Separation.tla: SepTable, MinSizes) the set of separable pairs and the minimum separator size of each pair are derived for every ADMG <= 4 nodes; get_conditional_independencies is replayed for 7 size limits x 2 built-in policies x 3 scenarios (sorted insertion; Grow history on one object; latent-like node names), also on all 1024 topologically numbered 5-node DAGs, and every returned judgement must be a true separation of the table, canonical, of minimum size, one per pair, with exactly the pairs the limit allows.",
        "ref": "DESIGN.md section 4/C15",
        "note": "The size limit is accepted as inclusive or exclusive (two-sided bound); exhaustive <= 4 nodes, sampled at 5. Trusted: TLC, MSepPath.",
        "technique": "TLA+ specification + TLC-generated oracle tables replayed against the implementation",
    },
    "C20": {
        "text": "SigmaSep (walk-based sigma-separation with strongly connected components) is model-checked by TLC to coincide with m-separation on every ADMG <= 4 nodes and to be symmetric and adjacency-respecting on every mixed graph with 3 nodes; are_sigma_separated is replayed for every pair in both argument orders and every conditioning set against TLC's tables (agreement on ADMGs; symmetry and adjacency on cyclic graphs), under 3 scenarios (sorted insertion; Grow history on one object; latent-like node names). A literal TLA+ transcription of y0's path criterion (SigmaY0Sep) names the known deviation so that its failures are attributed by call site.",
        "ref": "DESIGN.md section 4/C20, 5.2",
        "note": "Known finding sigma-collider-depth-1 (needs >= 5 nodes) is reported, everything else is gated. Exhaustive <= 4 nodes (ADMG) / 3 nodes (cyclic), fixed 64-graph 5-node family, seeded 5-node samples in thorough.",
        "technique": "TLA+ specification + TLC model checking + replay of TLC verdict tables; named implementation-shaped deviation for the known finding",
    },
}
NOT_YET = {}

# ---- round-6 additions (appended to the texts above so that the table stays readable)
_ADD = {
    "C01": " The repository's own example catalogue (y0.examples, 5-8 node graphs from the literature) is a further family (FileFamily.tla / IDGenFile.tla): its example queries and a seeded sample of its identifiable queries are validated the same way.",
    "C02": " The query objects are a machine of their own (QueryMachine.tla: exchange_observation_with_action, exchange_action_with_observation, with_treatments, uncondition, expression; action properties Persistent, Conserve, OutcomesKept, invariant ExchInverse model-checked): every TLC-generated transformer sequence (exhaustive to depth 2 over 3 names, seeded walks of depth 5 over 4 names) is replayed through Query and Identification objects and every object created so far is compared with the spec's after every step. The example catalogue (5-8 node graphs) is a further family for the outcome classes (IDGenFile.tla, every query with |X|+|Y| <= 3).",
    "C03": " The example catalogue (5-8 node graphs) is a further family (IDGenFile.tla, single-variable X, Y, Z queries, seeded sample).",
    "C04": " Further families: BC5 (SepExtra.tla: the 744 five-node ADMGs around a chain of three bidirected colliders) and the repository's example catalogue (SepFile.tla: seven 5-8 node graphs), both with the design-level invariants checked on them.",
    "C06": " ID* / IDC*: every estimand returned by id_star / idc_star on every single atom, slices of the pairs and three-world triples over the 3-node ADMGs and two-atom events over seeded 4-node ADMGs must satisfy SingleWorldOnly (CF.tla; TV kind svocab - nothing is evaluated, so the family is wider than the semantic families of C07 / C08).",
    "C07": " History replay (CFMachine.tla action Grow, action property GrowLocal model-checked): per graph one object without its last edge answers every event, the edge is added in place, every event is asked again and must be answered like an object of the same value and insertion order that has no history.",
    "C08": " History replay as in C07 (CFMachine.tla Grow): an object that was queried, grown in place by one edge and queried again must answer like an object of the same value without that history.",
    "C14": " Walks interleave the in-place mutators add_node / add_directed_edge / add_undirected_edge (actions of GraphOps.tla, action property MutatorsGrow) with the operations on ONE live object, so every later observation must be the one of the current value.",
    "C15": " The enumeration itself is a machine (CIMachine.tla: StartPair / Probe / GiveUp / Finish over the verdict table; invariants Sound, AtMostOne, Exact, TwoSided, Progress, action property Monotone model-checked on all 3-node and all ordered 4-node ADMGs for both readings of the limit). Trace direction (CITrace.tla): the sequence of judgements the real generator d_separations yields, in order, must be a behaviour of CIMachine (one event per emitted judgement; the silent StartPair / Probe / GiveUp steps and the reading of the limit are inferred by TLC; Sound and AtMostOne are evaluated on every explained prefix). Further families: BC5 (SepExtra.tla) and the example catalogue (SepFile.tla).",
    "C18": " History replay (CFMachine.tla action Grow, action property GrowLocal - modularity of the model family - model-checked): one object answers every event, is grown in place by one edge and answers again; the answers of the object with a history are validated by TLC like any other record and compared with those of an object without history.",
    "C20": " Further family: the repository's example catalogue (SepFile.tla, seven 5-8 node graphs).",
}
_ADD["C01"] += " IDGenX.tla searches the chain family CH5 with the reference's own recursion structure (predicate WideL6: line 6 after line 7 with a district of >= 2 variables that a treatment splits in the topological order) and every such identifiable query (298) is validated (a seeded sample of 40 in quick). The drivers call three APIs in turn: identify_outcomes, Query + Identification, Identification.from_expression(P[X](Y | Z))."
_ADD["C03"] += " The second scenario of the drivers alternates between permuted names and the names the library gives to latent parents (u_0, u_1, ...)."
_ADD["C05"] = " Besides IDGen's disjoint domain configurations the problems include domains whose experiment set and surrogate-outcome set overlap (inputs only; the derived selection diagram and the truth are computed by TLC)."
_ADD["C10"] = " ExprCalcX.tla adds a four-name alphabet of interventional / counterfactual joints whose interventions are on an ancestor of the children in the calculator's generic DAG (so that a sum can range over a child, keep another and name a variable the term does not mention)."
_ADD["C11"] = " ExprPerm.tla has bases with a bare sum next to a fraction inside a product; the four-name alphabet of ExprCalcX.tla is canonicalised as well."
_ADD["C12"] = " Every print/parse record is repeated with the parser's indexed names and with each probability atom built through the public builder from operator chains (a & b | c | d & e; marked pub when the whole term consists of builder atoms and the operators *, /, marginalize, normalize_marginalize: the object-equality clause then applies whatever order the builder produced); ExprCalcX.tla's four-name alphabet is included."
_ADD["C13"] = " ExprCalcX.tla's four-name alphabet (non-vacuous interventions) is included with the closing actions fsimp / ssimp."
_ADD["C19"] = " get_ancestral_components is also run with four roots on 4-node graphs under 6-12 node / edge insertion orders, including the graphs without directed edges (singleton ancestral sets: all merging happens in the bidirected stage)."
for _k, _v in _ADD.items():
    CHECKS[_k]["text"] += _v

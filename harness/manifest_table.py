"""Per-property manifest texts."""
CHECKS = {
    "C14": {
        "text": "GraphOps.tla (one action per public NxMixedGraph operation) is model-checked by TLC against the algebraic laws of MixedGraph.tla on all 512 mixed graphs with 3 nodes; TLC then generates every depth-1 behaviour over those graphs (all node subsets, all 15 operations) plus seeded walks of depth 3-4 on 3- and 5-node graphs, and each behaviour is replayed through the real NxMixedGraph under 3 insertion orders with the projected (nodes, directed, bidirected) state compared with the spec state after every action and the receiver compared before/after.",
        "ref": "DESIGN.md section 4/C14",
        "note": "Exhaustive only up to 3 nodes (cycles included); 5-node walks are sampled. Trusted: TLC, the set-theoretic definitions in MixedGraph.tla, the 60-line projection in harness/ser.py.",
        "technique": "TLA+ state machine + TLC model checking; TLC-generated behaviours replayed into the implementation (spec-to-code conformance)",
    },
    "C04": {
        "text": "Separation.tla defines m-separation three independent ways (open simple paths; ancestral moral graph of the canonical latent DAG; sigma-reachability over (node, arrival mark)); TLC proves them equal and symmetric on every ADMG with <= 4 nodes (SepMachine MC) and prints each graph's verdict table; the real are_d_separated is then replayed for every ordered pair, every conditioning set (with duplicates/shuffled conditions) and 2 insertion orders against those tables, and the returned judgement's fields are checked for canonical form.",
        "ref": "DESIGN.md section 4/C04",
        "note": "Exhaustive on all 200 three-node and all 4096 topologically numbered four-node ADMGs (thorough: all 34752 labelled ones), seeded samples on 5 nodes. Trusted: TLC and the path definition MSepPath.",
        "technique": "TLA+ specification of separation, TLC model checking of definition equivalence, TLC-generated verdict tables replayed against the implementation",
    },
    "C15": {
        "text": "From TLC's m-separation tables (Separation.tla: SepTable, MinSizes) the set of separable pairs and the minimum separator size of each pair are derived for every ADMG <= 4 nodes; get_conditional_independencies is replayed for 7 size limits x 2 built-in policies x 2 insertion orders and every returned judgement must be a true separation of the table, canonical, of minimum size, one per pair, with exactly the pairs the limit allows.",
        "ref": "DESIGN.md section 4/C15",
        "note": "The size limit is accepted as inclusive or exclusive (two-sided bound); exhaustive <= 4 nodes, sampled at 5. Trusted: TLC, MSepPath.",
        "technique": "TLA+ specification + TLC-generated oracle tables replayed against the implementation",
    },
    "C20": {
        "text": "SigmaSep (walk-based sigma-separation with strongly connected components) is model-checked by TLC to coincide with m-separation on every ADMG <= 4 nodes and to be symmetric and adjacency-respecting on every mixed graph with 3 nodes; are_sigma_separated is replayed for every pair in both argument orders and every conditioning set against TLC's tables (agreement on ADMGs; symmetry and adjacency on cyclic graphs). A literal TLA+ transcription of y0's path criterion (SigmaY0Sep) names the known deviation so that its failures are attributed by call site.",
        "ref": "DESIGN.md section 4/C20, 5.2",
        "note": "Known finding sigma-collider-depth-1 (needs >= 5 nodes) is reported, everything else is gated. Exhaustive <= 4 nodes (ADMG) / 3 nodes (cyclic), fixed 64-graph 5-node family, seeded 5-node samples in thorough.",
        "technique": "TLA+ specification + TLC model checking + replay of TLC verdict tables; named implementation-shaped deviation for the known finding",
    },
}
NOT_YET = {}

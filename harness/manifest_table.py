"""Per-property manifest texts."""
CHECKS = {
    "C14": {
        "text": "GraphOps.tla (one action per public NxMixedGraph operation) is model-checked by TLC against the algebraic laws of MixedGraph.tla on all 512 mixed graphs with 3 nodes; TLC then generates every depth-1 behaviour over those graphs (all node subsets, all 15 operations) plus seeded walks of depth 3-4 on 3- and 5-node graphs, and each behaviour is replayed through the real NxMixedGraph under 3 insertion orders with the projected (nodes, directed, bidirected) state compared with the spec state after every action and the receiver compared before/after.",
        "ref": "DESIGN.md section 4/C14",
        "note": "Exhaustive only up to 3 nodes (cycles included); 5-node walks are sampled. Trusted: TLC, the set-theoretic definitions in MixedGraph.tla, the 60-line projection in harness/ser.py.",
        "technique": "TLA+ state machine + TLC model checking; TLC-generated behaviours replayed into the implementation (spec-to-code conformance)",
    },
}
NOT_YET = {}

"""C02: ID verdicts are total, complete and side-effect free.

Design level: IDMachine.tla invariant Complete (reference ID refuses <=> Tian/Huang-Valtorta criterion fails
<=> a hedge exists, by brute force) on every 3-node ADMG.  Conformance: the outcome class of the real
identify_outcomes / identify on every TLC-generated query is validated by TLC (TV.tla: expr iff TianOK,
'unident' iff not, anything else rejected) and the caller's graph/query are compared before and after.
The query objects themselves are a machine (QueryMachine.tla): TLC-generated transformer sequences are replayed through
Query / Identification and every live object is compared with the spec's after every step.
"""

from __future__ import annotations

import random

import examples as ex
import idcommon as ic
import linetrace as lt
import querymachine as qm
from common import MachineryError, Outcome, seed, workdir

PID = "C02"
CLAUSES = {"other-failure", "spurious-refusal", "answered-unidentifiable", "side-effect"}


def warm():
    wd = workdir("c02-warm")
    ic.mc(wd, "A3", "id")
    ic.gen(wd, "A3", "id")
    ic.gen(wd, "A4o", "id")
    qm.warm(wd)


def run(tier: str) -> int:
    out = Outcome(PID, tier)
    wd = workdir(PID)
    mcs = [ic.mc(wd, "A3", "id")[0]]
    gens = [ic.gen(wd, "A3", "id")[0], ic.gen(wd, "A4o" if tier == "quick" else "A4", "id")[0],
            ic.gen(wd, "RND", "id", rnd_seed=900 + seed(), rndn=5, rndk=5 if tier == "quick" else 12)[0]]
    items = ic.with_gids(gens[0]["items"], "A3-") + ic.with_gids(gens[1]["items"], "A4-") + \
        ic.with_gids(gens[2]["items"], "R5-")
    if tier == "thorough":
        r6 = ic.gen(wd, "RND", "id", rnd_seed=901 + seed(), rndn=6, rndk=4)[0]
        qrng = random.Random(seed())
        r6i = ic.with_gids(r6["items"], "R6-")
        for it in r6i:
            it["qs"] = qrng.sample(it["qs"], 120)
        items += r6i
        gens.append(r6)
    exg = ex.id_items(wd, "id")   # the repository's example catalogue, every query with |X| + |Y| <= 3
    items += ic.with_gids([{k: it[k] for k in ("g", "qs")} for it in exg["items"]], "EX-")
    gens.append(exg)
    groups = ic.run_y0(wd, items, 3, False, "c02")
    vs, st, by_id = ic.judge(wd, groups, seeds=(1,))
    idx = ic.index(items)
    # machinery consistency: TLC's two independent oracles (IDRef verdict of the generator, TianOK in TV) agree
    for rid, v in vs.items():
        gid, qi, _ = rid.split(":")
        ident = idx[(gid, int(qi))][4]
        k = by_id[rid][1]["out"]["k"]
        tv_ident = (v["clause"] in ("verdict-only", "spurious-refusal")) if k in ("expr", "unident") else None
        if tv_ident is not None and tv_ident != ident:
            raise MachineryError(f"oracle disagreement IDRef vs TianOK on {rid}")
    ic.report(out, vs, by_id, idx, only_clauses=CLAUSES)
    # line-level trace validation (IDLines.tla, hook y0._verif): one action per ID line; diagnostic, not gating,
    # because a refactoring of the recursion that keeps every answer right must not raise an alarm
    rng = random.Random(20 + seed())
    lt_items = ic.with_gids(gens[0]["items"], "A3-") + ic.sample(ic.with_gids(gens[1]["items"], "A4-"), 150 if tier == "quick" else 1500, rng)
    traces = lt.validate(wd, lt_items)
    if traces["accepted"] != traces["traces"]:
        print(f"DIAGNOSTIC property={PID} line traces rejected by IDLines.tla: {traces['traces'] - traces['accepted']} of {traces['traces']}, e.g. {traces['rejected_sample']}")
    # the query objects as a machine (QueryMachine.tla): every transformer returns a new object, live objects persist
    qstats = qm.run(wd, out, tier)
    ident_n = sum(1 for v in vs.values() if v["clause"] == "verdict-only")
    refused = sum(1 for v in vs.values() if v["clause"] == "refused")
    nontriv = {rid.rsplit(":", 1)[0] for rid, v in vs.items() if by_id[rid][0]["b"]}
    ids = sorted(vs)
    cov = {
        "states": sum(m["distinct"] for m in mcs) + sum(g["distinct"] for g in gens) + st["distinct"],
        "transitions": sum(m["generated"] for m in mcs) + sum(g["generated"] for g in gens) + st["generated"],
        "traces_validated_against_impl": len(vs),
        "answered": ident_n, "refused": refused,
        "distinct_nontrivial": len(nontriv),
        "rule": "one record = one call on (G, X, Y) under one insertion order and one of the two APIs; outcome class "
                "(estimand / unidentifiable / other exception / caller objects changed) validated by TLC against the "
                "Tian-Huang-Valtorta criterion; exhaustive over all 200 3-node ADMGs and all "
                + ("4096 topologically numbered" if tier == "quick" else "34752 labelled") +
                " 4-node ADMGs x all disjoint non-empty (X, Y); seeded 5-node"
                + (" and 6-node" if tier == "thorough" else "") + " graphs; non-trivial = distinct query on a graph with a bidirected edge",
        "samples": [{"id": i, "graph": {k: by_id[i][0][k] for k in "ndb"}, "x": by_id[i][1]["x"], "y": by_id[i][1]["y"],
                     "outcome": by_id[i][1]["out"]["k"], "verdict": vs[i]["clause"]} for i in (ids[0], ids[len(ids) // 2], ids[-1])],
        "exhaustive": True,
        "design_mc": mcs,
        "line_traces": traces,
        "query_machine": qstats,
    }
    cov["states"] += qstats["distinct"]
    cov["transitions"] += qstats["generated"]
    cov["states"] += traces["distinct"]
    cov["transitions"] += traces["generated"]
    return out.finish("model_checking", cov, [
        "identifiability oracle: TianOK (Tian / Huang-Valtorta), model-checked equal to the reference ID verdict and to brute-force hedge existence on all 3-node inputs",
        "graphs with more than 6 nodes are not explored"])

"""Binding self-test (not a registered check): corrupt recorded behaviour and show that TLC rejects exactly it.

1. line traces (IDLines.tla): change one event's line number / drop one event -> that trace is not accepted;
2. recorded estimands (TV.tla): delete one conditioning variable from one recorded ID estimand -> 'value' failure at
   exactly that record; flip a recorded refusal into an answer -> 'answered-unidentifiable'.
usage: python3 harness/selftest.py
"""
import copy
import json
import os
import re
import sys

sys.path.insert(0, os.path.dirname(os.path.abspath(__file__)))
import idcommon as ic  # noqa: E402
import tv  # noqa: E402
from common import drive, tlc, workdir  # noqa: E402

wd = workdir("selftest")
g3 = ic.gen(wd, "A3", "id")[0]
items = ic.with_gids(g3["items"], "A3-")[100:140]
ok = True

# ---- 1. line traces
f = wd / "lt-in.json"
f.write_text(json.dumps([{"g": it["g"], "gid": it["gid"], "qs": [q[:3] for q in it["qs"]]} for it in items]))
drive("drive_idtrace.py", [str(f), str(wd / "lt-tr.json")])
traces = json.loads((wd / "lt-tr.json").read_text())
victim = next(i for i, t in enumerate(traces) if len(t["evs"]) >= 2)
bad = copy.deepcopy(traces)
bad[victim]["evs"][1]["line"] = 6 if bad[victim]["evs"][1]["line"] != 6 else 2
victim2 = next(i for i, t in enumerate(traces) if len(t["evs"]) >= 2 and i != victim)
del bad[victim2]["evs"][-1]
(wd / "lt-bad.json").write_text(json.dumps(bad))
cfg = wd / "lt.cfg"
cfg.write_text("SPECIFICATION Spec\nINVARIANT Report\nCHECK_DEADLOCK FALSE\n")
r = tlc("IDLines.tla", str(cfg), workers=1, env={"TRACE_FILE": str(wd / "lt-bad.json")}, meta=wd / "lt-meta")
acc = set(re.findall(r'^<<"ACC", "([^"]+)">>', r["out"], flags=re.M))
rej = {t["id"] for t in bad} - acc
want = {bad[victim]["id"], bad[victim2]["id"]}
print("line traces: rejected", sorted(rej), "expected", sorted(want))
ok &= rej == want

# ---- 2. recorded estimands
groups = ic.run_y0(wd, items, 1, True, "st")
small = ic.strip_str(groups)
target = None
for g in small:
    for rec in g["recs"]:
        e = rec["out"].get("e")
        if rec["out"]["k"] == "expr" and e and e["t"] == "P" and e["pa"]:
            target = rec
            break
    if target:
        break
target["out"]["e"]["pa"] = target["out"]["e"]["pa"][1:]
flip = next(rec for g in small for rec in g["recs"] if rec["out"]["k"] == "unident")
flip["out"] = {"k": "expr", "e": {"t": "P", "ch": [{"n": flip["y"][0], "s": 0, "iv": []}], "pa": [], "pop": 0}}
vs, _ = tv.validate(wd, small, tag="st-tv")
failing = {i: v["clause"] for i, v in vs.items() if not v["ok"]}
print("estimands: failing", failing, "expected", {target["id"]: "value", flip["id"]: "answered-unidentifiable"})
ok &= failing == {target["id"]: "value", flip["id"]: "answered-unidentifiable"}

# ---- 3. generator traces (CITrace.tla): a wrong conditioning set, a missing judgement and a duplicated pair are rejected
import citrace  # noqa: E402
from common import SPEC  # noqa: E402

chain = {"n": [1, 2, 3], "d": [[1, 2], [2, 3]], "b": []}
ct = [{"id": "good", "g": chain, "k": -1, "events": [[1, 3, [2]]]},
      {"id": "wrong-set", "g": chain, "k": -1, "events": [[1, 3, []]]},
      {"id": "missing", "g": chain, "k": -1, "events": []},
      {"id": "duplicate", "g": chain, "k": -1, "events": [[1, 3, [2]], [1, 3, [2]]]},
      {"id": "limit-exclusive", "g": chain, "k": 1, "events": []},
      {"id": "limit-inclusive", "g": chain, "k": 1, "events": [[1, 3, [2]]]}]
(wd / "ci-bad.json").write_text(json.dumps(ct))
r = tlc("CITrace.tla", SPEC / "CITrace.cfg", workers=1, env={"TRACE_FILE": str(wd / "ci-bad.json")}, meta=wd / "ci-meta")
acc = {json.loads(json.loads('"' + m + '"'))["id"] for m in citrace._ACC.findall(r["out"])}
print("generator traces: accepted", sorted(acc))
ok &= acc == {"good", "limit-exclusive", "limit-inclusive"}

# ---- 4. query machine (QueryMachine.tla): a behaviour whose recorded state is corrupted is rejected by the replay
beh = [{"op": "init", "arg": [], "q": {"y": [3], "x": [1], "z": [2]}, "res": "ok"},
       {"op": "exchange_observation_with_action", "arg": [2], "q": {"y": [3], "x": [1, 2], "z": []}, "res": "ok"},
       {"op": "uncondition", "arg": [], "q": {"y": [3], "x": [1, 2], "z": []}, "res": "ok"}]
badb = copy.deepcopy(beh)
badb[1]["q"]["x"] = [1]          # the spec state says z moved to x; a trace claiming otherwise must not replay
(wd / "q-in.json").write_text(json.dumps([beh, badb]))
drive("drive_query.py", [str(wd / "q-in.json"), str(wd / "q-out.json")])
qf = json.loads((wd / "q-out.json").read_text())["fails"]
print("query machine: failing behaviours", sorted({json.dumps(f["behaviour"][1]["q"], sort_keys=True) for f in qf}))
ok &= len(qf) == 2 and all(f["behaviour"] == badb and f["clause"] == "state" for f in qf)
print("SELFTEST", "OK" if ok else "FAILED")
sys.exit(0 if ok else 1)

"""Driver for C19: the helper routines of counterfactual transportability on TLC-generated inputs.

usage: drive_ctf.py <in.json> <out.json>;  in: list of {"g", "gid", "vars": [var...], "evs": [event...]}
For every variable: minimize_counterfactual, get_ancestors_of_counterfactual; for every event: simplify,
do_counterfactual_factor_factorization.  Outcomes are serialised, nothing is evaluated here.
"""

from __future__ import annotations

import json
import sys

from ser import build_graph, de_var, exc_class, ser_expr, ser_var
from y0.dsl import Variable


def ev_list(atoms):
    out = []
    for a in atoms:
        key = de_var({"n": a["n"], "s": 0, "iv": a["iv"]})
        base = Variable(f"V{a['n']}")
        out.append((key, +base if a["s"] == 2 else -base))
    return out


def ser_ev(ev):
    out = []
    for k, v in ev:
        r = ser_var(k)
        if v is None or v.name != k.name:
            raise ValueError(f"bad event item {k}: {v}")
        r["s"] = 2 if v.star else 1
        out.append(r)
    return out


def guarded(fn):
    try:
        return fn()
    except Exception as exc:  # noqa: BLE001
        return {"k": "exc", "exc": exc_class(exc), "msg": str(exc)[:160]}


def main():
    from y0.algorithm.counterfactual_transport.ancestor_utils import (get_ancestors_of_counterfactual,
                                                                      minimize_counterfactual)
    from y0.algorithm.counterfactual_transport.api import do_counterfactual_factor_factorization, simplify

    groups = []
    for item in json.load(open(sys.argv[1])):
        g = item["g"]
        recs = []
        for vi, v in enumerate(item["vars"]):
            graph = build_graph(g, vi % 2)
            var = de_var(dict(v, s=0))

            def do_min():
                r = minimize_counterfactual(var, graph)
                if not isinstance(r, Variable):
                    return {"k": "exc", "exc": "NotAVariable", "msg": repr(r)[:100]}
                return {"k": "var", "v": ser_var(r), "str": str(r)}

            def do_anc():
                rs = get_ancestors_of_counterfactual(var, graph)
                return {"k": "vars", "vs": [ser_var(x) for x in sorted(rs, key=str)], "str": str(sorted(rs, key=str))[:200]}

            recs.append({"id": f"{item['gid']}:v{vi}:min", "k": "min", "v": dict(v, s=0), "out": guarded(do_min)})
            recs.append({"id": f"{item['gid']}:v{vi}:anc", "k": "anc", "v": dict(v, s=0), "out": guarded(do_anc)})
        for ei, ev in enumerate(item["evs"]):
            graph = build_graph(g, ei % 2)

            def do_simp():
                r = simplify(event=ev_list(ev), graph=graph)
                if r is None:
                    return {"k": "none"}
                return {"k": "event", "ev": ser_ev(r), "str": str(r)[:300]}

            def do_fact():
                e, rev = do_counterfactual_factor_factorization(variables=ev_list(ev), graph=graph)
                try:
                    return {"k": "expr", "e": ser_expr(e), "ev": ser_ev(rev), "str": (str(e) + " ; " + str(rev))[:400]}
                except Exception as exc:  # noqa: BLE001
                    return {"k": "expr", "unser": f"{exc_class(exc)}: {exc}"[:160], "str": str(e)[:300]}

            recs.append({"id": f"{item['gid']}:e{ei}:simp", "k": "simp", "ev": ev, "out": guarded(do_simp)})
            recs.append({"id": f"{item['gid']}:e{ei}:fact", "k": "fact", "ev": ev, "out": guarded(do_fact)})
        from y0.algorithm.counterfactual_transport.ancestor_utils import get_ancestral_components
        for ci, (ws, xs) in enumerate(item.get("comps", [])):
            graph = build_graph(g, ci % item.get("comp_orders", 2))
            wv = {de_var(dict(v, s=0)) for v in ws}
            xv = {de_var(dict(v, s=0)) for v in xs}

            def do_comp():
                r = get_ancestral_components(conditioned_variables=xv, root_variables=wv, graph=graph)
                cs = sorted([[ser_var(v) for v in sorted(c, key=str)] for c in r], key=lambda c: json.dumps(c, sort_keys=True))
                return {"k": "comps", "cs": cs, "str": str(sorted(sorted(map(str, c)) for c in r))[:300]}

            recs.append({"id": f"{item['gid']}:c{ci}:comp", "k": "comp", "w": [dict(v, s=0) for v in ws],
                         "x": [dict(v, s=0) for v in xs], "out": guarded(do_comp)})
        groups.append({"n": g["n"], "d": g["d"], "b": g["b"], "recs": recs, "gid": item["gid"]})
    json.dump(groups, open(sys.argv[2], "w"))


main()

"""C10-C13 share one specification (ExprCalc.tla / ExprMath.tla / ExprPerm.tla) and one pipeline."""

from __future__ import annotations

import json
import random

import exprcommon as xc
from common import NCPU, MachineryError, Outcome, cached, drive, run_parallel, seed, tagged_lines, tlc, tlc_ok, tlc_violation, workdir

OPS = {
    "C13": {"mul", "div", "rmul", "rdiv", "marg", "cond", "nmarg", "fsimp", "ssimp", "contract", "rcontract", "chain", "fexp", "bexp"},
    "C10": {"canon"},
    "C12": {"pp"},
    "C11": {"canon"},
}
KINDS = {"C13": {"calc"}, "C10": {"canon"}, "C12": {"pp"}, "C11": {"same"}}


def warm():
    wd = workdir("expr-warm")
    xc.mc(wd, 3, "full", 1)
    xc.gen(wd, 3, "full", 1)
    xc.gen(wd, 3, "small", 2)
    xc.gen_x(wd)
    perm_mc(wd)
    perm_gen(wd, 3)


def closing(terms, op, prefix, extra=None):
    """The closing identity action `op` applied to TLC-generated terms (one more step of the same machine)."""
    return [{"id": f"{prefix}{t['id']}", "d": t["d"] + 1, "m": dict({"op": op, "a": t["m"]}, **(extra or {}))} for t in terms]


def terms_for(wd, pid, tier):
    rng = random.Random(1300 + seed())
    d1 = xc.gen(wd, 3, "full", 1)[0]
    d2 = xc.gen(wd, 3, "small", 2)[0]
    want = OPS[pid]
    all1 = xc.with_ids(d1["terms"], "d1-")
    all2 = [t for t in xc.with_ids(d2["terms"], "d2-") if t["d"] == 2]
    t1 = [t for t in all1 if t["m"]["op"] in want]
    t2 = [t for t in all2 if t["m"]["op"] in want]
    q = tier == "quick"
    cap = {"C13": 7000, "C10": 3000, "C12": 3000, "C11": 2000}[pid] * (1 if q else 6)
    if len(t2) > cap:
        t2 = rng.sample(t2, cap)
    sims = xc.sim(wd, 3, "full", 3 if q else 5, 60 if q else 400, 40 + seed(), cap=20000 if q else 120000)
    t3 = [t for t in xc.with_ids(sims["terms"], "w-") if t["d"] >= 2 and t["m"]["op"] in want]
    if len(t3) > cap // 3:
        t3 = rng.sample(t3, cap // 3)
    # closing actions on depth-1/2 terms
    base = all1 + all2
    pick = lambda ts, k: ts if len(ts) <= k else rng.sample(ts, k)  # noqa: E731
    t4 = []
    if pid == "C13":
        fr = [t for t in base if t["m"]["op"] in ("div", "rdiv", "cond", "nmarg")]
        t4 += closing(fr if not q else fr, "fsimp", "fs:")          # every fraction-rooted term, both tiers
        t4 += closing([t for t in base if t["m"]["op"] == "marg"], "ssimp", "ss:")
        t4 += closing(pick(fr, 2500 if q else 20000), "contract", "ct:")
        t4 += closing(pick(base, 2500 if q else 20000), "rcontract", "rc:")
    elif pid in ("C10", "C11"):
        for k, o in enumerate([[1, 2, 3], [3, 1, 2]]):
            t4 += closing(pick(base, 1500 if q else 15000), "canon", f"cn{k}:", {"ord": o})
    elif pid == "C12":
        t4 += closing(pick(base, 3000 if q else 30000), "pp", "pp:")
        # every product-rooted term (factor order and ties in the sort keys matter for the round trip)
        t4 += closing([t for t in all2 if t["m"]["op"] in ("mul", "rmul")], "pp", "ppm:")
    # the four-name alphabet of interventional / counterfactual joints (ExprCalcX.tla): every depth-1 term and the closing
    # actions of this property on all of them
    gx = xc.gen_x(wd)[0]
    x4 = [t for t in xc.with_ids(gx["terms"], "x4-") if t["d"] == 1]
    t5 = [t for t in x4 if t["m"]["op"] in want]
    if pid == "C13":
        t5 += closing([t for t in x4 if t["m"]["op"] in ("div", "rdiv", "cond", "nmarg")], "fsimp", "fs:")
        t5 += closing([t for t in x4 if t["m"]["op"] == "marg"], "ssimp", "ss:")
    elif pid in ("C10", "C11"):
        for k, o in enumerate([[4, 2, 1, 3], [1, 2, 3, 4]]):
            t5 += closing(x4, "canon", f"cn{k}:", {"ord": o})
    elif pid == "C12":
        t5 += closing(x4, "pp", "pp:")
    return t1 + t2 + t3 + t4 + t5, [d1, d2, sims, gx]


def mstr(x):
    """Readable form of a math term (for evidence samples and replay files)."""
    op = x["op"]
    if op == "atom":
        p = x["p"]
        if p["t"] == "Q":
            return f"Q[{p['cod']}]({p['dom']})"
        f = lambda v: ("+" if v["s"] == 2 else "-" if v["s"] == 1 else "") + f"V{v['n']}" + (f"@{v['iv']}" if v["iv"] else "")  # noqa: E731
        pop = f"PP{p['pop']}" if p.get("pop") else "P"
        return f"{pop}({','.join(map(f, p['ch']))}{('|' + ','.join(map(f, p['pa']))) if p['pa'] else ''})"
    if op in ("one", "zero"):
        return op
    args = [mstr(x["a"])] + ([mstr(x["b"])] if "b" in x else [])
    extra = "".join(f",{k}={x[k]}" for k in ("r", "ord", "reorder") if k in x)
    return f"{op}({','.join(args)}{extra})"


# ---------------------------------------------------------------- C11: permutations and hash seeds


def _perm_cfg(wd, depth, check, emit):
    f = wd / f"ExprPerm_{depth}_{int(check)}_{int(emit)}.cfg"
    f.write_text(f"SPECIFICATION Spec\nCONSTANTS\n  MaxDepth = {depth}\n  Seeds = {{1, 2}}\n  Check = {'TRUE' if check else 'FALSE'}\n"
                 + ("INVARIANT PermSound\n" if check else "") + ("INVARIANT Emit\n" if emit else "") + "CHECK_DEADLOCK FALSE\n")
    return str(f)


def perm_mc(wd):
    def go():
        r = tlc("ExprPerm.tla", _perm_cfg(wd, 2, True, False), workers=NCPU, meta=wd / "epmc")
        v = tlc_violation(r)
        if v:
            raise MachineryError(f"ExprPerm design check: {v} violated\n" + r["out"][-2000:])
        tlc_ok(r, "ExprPerm MC")
        return {"generated": r["generated"], "distinct": r["distinct"], "invariants": ["PermSound"]}
    return cached("ep-mc", go, module="ExprPerm")


def perm_gen(wd, depth):
    def go():
        r = tlc("ExprPerm.tla", _perm_cfg(wd, depth, False, True), workers=NCPU, meta=wd / "epgen")
        tlc_ok(r, "ExprPerm gen")
        ts = tagged_lines(r["out"], "PERM")
        ts.sort(key=lambda t: json.dumps(t, sort_keys=True))
        return {"items": [dict(t, id=f"p{i}") for i, t in enumerate(ts)], "generated": r["generated"], "distinct": r["distinct"]}
    return cached(f"ep-gen-{depth}", go, module="ExprPerm")


def perm_records(wd, tier):
    g = perm_gen(wd, 3)[0]
    items = g["items"]
    if tier == "quick" and len(items) > 6000:
        rng = random.Random(11 + seed())
        keep = [it for it in items if it["d"] <= 2]
        rest = [it for it in items if it["d"] > 2]
        items = keep + rng.sample(rest, 6000 - len(keep)) if len(keep) < 6000 else keep
    base_id = {it["base"]: it["id"] for it in g["items"] if it["d"] == 0}
    hashseeds = ["0", "1", "2"] if tier == "quick" else ["0", "1", "2", "3", "random"]
    outs = {}
    for hs in hashseeds:
        shards = [items[i::NCPU] for i in range(NCPU)]
        jobs = []
        for i, sh in enumerate(shards):
            if sh:
                f = wd / f"perm-in{hs}-{i}.json"
                f.write_text(json.dumps(sh))
                jobs.append((f, wd / f"perm-out{hs}-{i}.json"))

        def one(job, hs=hs):
            drive("drive_perm.py", [str(job[0]), str(job[1])], hashseed=hs)
            return json.loads(job[1].read_text())

        merged = {}
        for r in run_parallel(one, jobs):
            merged.update(r)
        outs[hs] = merged
    recs = []
    ref = outs[hashseeds[0]]
    for it in items:
        for hs in hashseeds:
            for oname, res in outs[hs][it["id"]].items():
                b = ref[base_id[it["base"]]][oname]
                rid = f"{it['id']}:{oname}:hs{hs}"
                if "e" in res and "e" in b:
                    recs.append({"id": rid, "k": "same", "a": b["e"], "b": res["e"],
                                 "eq": bool(res["idem"]) and bool(res["hash_eq"]), "str": res["str"] == b["str"],
                                 "a_str": b["str"][:300], "b_str": res["str"][:300], "present": it["e"], "d": it["d"]})
                else:
                    recs.append({"id": rid, "k": "same", "a": {"t": "exc"}, "b": {"t": "exc2"}, "eq": False, "str": False,
                                 "a_str": json.dumps(b)[:200], "b_str": json.dumps(res)[:200], "present": it["e"], "d": it["d"]})
    return recs, g, len(items), hashseeds


# ---------------------------------------------------------------- canonical_expr_equal (C10, second clause)


def declared_equal_records(recs):
    """Pairs of logged objects with the same canonical text under the same ordering are declared equal by
    canonical_expr_equal (it compares exactly these canonical forms); TLC must find them semantically equal."""
    buckets = {}
    for r in recs:
        if r["k"] == "canon" and r["out"].get("k") == "expr" and "e" in r["out"]:
            key = (json.dumps(r["ord"]), r["out"]["str"])
            buckets.setdefault(key, []).append(r)
    out = []
    for (_, _), rs in sorted(buckets.items()):
        first = rs[0]
        seen = {json.dumps(first["pre"], sort_keys=True)}
        for r in rs[1:]:
            k = json.dumps(r["pre"], sort_keys=True)
            if k in seen:
                continue
            seen.add(k)
            out.append({"id": f"{first['id']}~{r['id']}", "k": "eq", "a": first["pre"], "b": r["pre"],
                        "a_str": first["pre_str"], "b_str": r["pre_str"]})
    return out


def run_for(pid: str, tier: str, manifest_rule: str, assumptions: list[str]) -> int:
    out = Outcome(pid, tier)
    wd = workdir(pid)
    mcs = [xc.mc(wd, 3, "full", 1)[0]]
    terms, gens = terms_for(wd, pid, tier)
    recs, stats = xc.run_y0(wd, terms, pid.lower())
    by_term = {t["id"]: t for t in terms}
    recs = [r for r in recs if r["k"] in KINDS[pid]]
    extra = {}
    states = sum(g["distinct"] for g in gens) + sum(m["distinct"] for m in mcs)
    trans = sum(g["generated"] for g in gens) + sum(m["generated"] for m in mcs)
    if pid == "C10":
        eqs = declared_equal_records(recs)
        extra["declared_equal_pairs"] = len(eqs)
        recs = recs + eqs
    if pid == "C11":
        pm = perm_mc(wd)[0]
        precs, pg, nitems, hashseeds = perm_records(wd, tier)
        mcs.append(pm)
        recs = recs + precs
        extra.update({"presentations": nitems, "hash_seeds": hashseeds, "permutation_records": len(precs)})
        states += pg["distinct"] + pm["distinct"]
        trans += pg["generated"] + pm["generated"]
    vs, st, by_id = xc.judge(wd, 4 if pid == "C11" else 3, recs, seeds=(1, 2) if tier == "quick" else (1, 2, 3))
    seen = set()
    for rid, v in sorted(vs.items()):
        if v["ok"]:
            continue
        r = by_id[rid]
        if r["k"] == "calc":
            desc = mstr(r["m"])
        elif r["k"] == "same":
            desc = json.dumps(r.get("present", r["a"]), sort_keys=True)[:400] + "|" + rid.split(":", 1)[-1]
        elif r["k"] == "eq":
            desc = r["a_str"] + " ~ " + r["b_str"]
        else:
            desc = r.get("pre_str") or r.get("text") or rid
        if v["clause"] == "value-dev-cond":
            key, sig = "deviation:cond-bound-vars", "impl=DevMath#Math"
        else:
            key = f"{r['k']}:{desc}"
            sig = v["clause"] + (f":{r['out'].get('exc')}" if r.get("out", {}).get("k") == "exc" else "") + \
                (f":{v['c']['sig']}" if v["clause"] == "value" else "")
        if (key, sig, rid if key.startswith("deviation") else "") in seen:
            continue
        seen.add((key, sig, rid if key.startswith("deviation") else ""))
        out.fail(key, sig, {"record": r, "verdict": v, "readable": desc})
    okids = sorted(i for i, v in vs.items() if v["ok"] and v["clause"] == "ok")
    clauses = {}
    for v in vs.values():
        clauses[v["clause"]] = clauses.get(v["clause"], 0) + 1
    per_op = {}
    for i in okids:
        r = by_id[i]
        op = r["m"]["op"] if r["k"] == "calc" else r["k"]
        per_op[op] = per_op.get(op, 0) + 1

    def sample(i):
        r = by_id[i]
        if r["k"] == "calc":
            return {"id": i, "term": mstr(r["m"]), "object": r["out"].get("str")}
        if r["k"] == "same":
            return {"id": i, "canonical": r["a_str"], "of_presentation": r["b_str"]}
        return {"id": i, "input": r.get("pre_str") or r.get("text") or r.get("a_str"), "output": (r.get("out") or {}).get("str") or r.get("b_str")}

    cov = {
        "states": states + st["distinct"], "transitions": trans + st["generated"],
        "traces_validated_against_impl": len(vs),
        "distinct_nontrivial": len({json.dumps(by_id[i].get("m") or by_id[i].get("pre") or by_id[i].get("a"), sort_keys=True) for i in okids}),
        "ok_per_operation": per_op, "clauses": clauses, "driver_stats": stats,
        "rule": manifest_rule,
        "samples": [sample(i) for i in okids[:: max(1, len(okids) // 3)][:3]],
        "exhaustive": False, "design_mc": mcs, **extra,
    }
    return out.finish("model_checking", cov, assumptions)

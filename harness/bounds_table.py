"""Rewrite the quick-tier columns of DESIGN.md section 14.8 from the committed evidence files (thorough columns are kept)."""
import json, re
p = "/verif/DESIGN.md"
s = open(p).read()
out = []
for line in s.splitlines():
    m = re.match(r"^\| (C\d\d) \| (\d+) \| (\d+) \| (\d+) \| (.*)$", line)
    if m:
        try:
            ev = json.load(open(f"/verif/evidence/{m.group(1)}.json"))
            if ev.get("tier") == "quick":
                c = ev["coverage"]
                line = f"| {m.group(1)} | {c.get('traces_validated_against_impl')} | {c.get('known_finding_records', 0)} | {round(ev['wall_s'])} | {m.group(5)}"
        except FileNotFoundError:
            pass
    out.append(line)
open(p, "w").write("\n".join(out) + "\n")

"""Driver for C09: ctfTRu / ctfTR on TLC-generated problems.

usage: drive_ctft.py <in.json> <out.json>
in: list of {"g", "gid", "cdoms": [{"s": [...], "z": [...]}, ...], "evs": [event, ...], "cevs": [[outcomes, conditions], ...]}
Domain k is the target graph with the edges into its policy variables z removed and a selection node on every node
of s.  The library's own input validation is run first; a rejection there is recorded as 'rejected'.
"""

from __future__ import annotations

import json
import sys

import networkx as nx

from ser import build_graph, de_var, exc_class, pop_num, pop_var, ser_expr, ser_var, var
from y0.dsl import Variable


def cf_vars(atoms):
    out = []
    for a in atoms:
        out.append(de_var(a))
    return out


def ser_ev(ev):
    out = []
    for k, v in ev:
        r = ser_var(k)
        if v is None or v.name != k.name:
            raise ValueError(f"bad event item {k}: {v}")
        r["s"] = 2 if v.star else 1
        out.append(r)
    return out


def domain(g, dom, k):
    from y0.algorithm.counterfactual_transport.api import CFTDomain
    from y0.algorithm.transport import transport_variable
    from y0.graph import NxMixedGraph

    z = set(dom["z"])
    if dom.get("star"):
        # declared with the target's own population tag: same graph, the policy variables keep their parents
        from y0.dsl import TARGET_DOMAIN
        graph = build_graph(g)
        return CFTDomain(graph=graph, population=TARGET_DOMAIN, policy_variables={var(i) for i in z},
                         ordering=list(graph.topological_sort()))
    d = [(u, v) for u, v in g["d"] if v not in z]
    b = [(u, v) for u, v in g["b"] if u not in z and v not in z]
    order = [var(i) for i in nx.topological_sort(nx.DiGraph([(u, v) for u, v in d]))] if d else []
    order += [var(i) for i in g["n"] if var(i) not in order]
    dag = nx.DiGraph()
    dag.add_nodes_from(g["n"])
    dag.add_edges_from(d)
    order = [var(i) for i in nx.lexicographical_topological_sort(dag)]
    graph = NxMixedGraph.from_edges(
        nodes=[var(i) for i in g["n"]] + [transport_variable(var(i)) for i in dom["s"]],
        directed=[(var(u), var(v)) for u, v in d] + [(transport_variable(var(i)), var(i)) for i in dom["s"]],
        undirected=[(var(u), var(v)) for u, v in b],
    )
    # the validator requires the ordering to list the selection nodes as well
    order = list(graph.topological_sort())
    return CFTDomain(graph=graph, population=pop_var(k), policy_variables={var(i) for i in z}, ordering=order)


POPMAP = {}


def popfn(p):
    return POPMAP[p.name] if p.name in POPMAP else pop_num(p)


def outcome(res, kind):
    from y0.dsl import Zero

    if res is None:
        return {"k": "none"}
    e, ev = res.expression, res.event
    if isinstance(e, Zero):
        return {"k": "zero"}
    try:
        return {"k": "expr", "e": ser_expr(e, pop=popfn), "ev": ser_ev(ev), "str": (str(e) + " ; " + str(ev))[:500]}
    except Exception as exc:  # noqa: BLE001
        return {"k": "expr", "unser": f"{exc_class(exc)}: {exc}"[:200], "str": str(e)[:300]}


def main():
    from y0.algorithm.counterfactual_transport import api

    groups = []
    for item in json.load(open(sys.argv[1])):
        g = item["g"]
        recs = []
        graph = build_graph(g)
        doms = [domain(g, dm, k + 1) for k, dm in enumerate(item["cdoms"])]
        POPMAP.clear()
        POPMAP.update({"pi*": k + 1 for k, dm in enumerate(item["cdoms"]) if dm.get("star")})
        dg = [(dm.graph, dm.ordering) for dm in doms]
        dd = [(dm.policy_variables, dm.population) for dm in doms]
        for ei, ev in enumerate(item["evs"]):
            rid = f"{item['gid']}:u{ei}"
            vs = cf_vars(ev)
            try:
                api._validate_transport_unconditional_counterfactual_query_input(
                    event=api._event_from_counterfactuals(vs), target_domain_graph=graph, domain_graphs=dg, domain_data=dd)
            except Exception as exc:  # noqa: BLE001
                recs.append({"id": rid, "k": "ctfu", "ev": ev, "out": {"k": "rejected", "exc": exc_class(exc), "msg": str(exc)[:120]}})
                continue
            try:
                out = outcome(api.unconditional_cft(event=vs, target_domain_graph=graph, domains=doms), "u")
            except Exception as exc:  # noqa: BLE001
                out = {"k": "exc", "exc": exc_class(exc), "msg": str(exc)[:160]}
            recs.append({"id": rid, "k": "ctfu", "ev": ev, "out": out})
        for ei, (oc, cd) in enumerate(item.get("cevs", [])):
            rid = f"{item['gid']}:c{ei}"
            vo, vc = cf_vars(oc), cf_vars(cd)
            try:
                api._validate_transport_conditional_counterfactual_query_input(
                    outcomes=api._event_from_counterfactuals_strict(vo), conditions=api._event_from_counterfactuals_strict(vc),
                    target_domain_graph=graph, domain_graphs=dg, domain_data=dd)
            except Exception as exc:  # noqa: BLE001
                recs.append({"id": rid, "k": "ctfc", "ev": oc, "cond": cd, "out": {"k": "rejected", "exc": exc_class(exc), "msg": str(exc)[:120]}})
                continue
            try:
                out = outcome(api.conditional_cft(outcomes=vo, conditions=vc, target_domain_graph=graph, domains=doms), "c")
            except Exception as exc:  # noqa: BLE001
                out = {"k": "exc", "exc": exc_class(exc), "msg": str(exc)[:160]}
            recs.append({"id": rid, "k": "ctfc", "ev": oc, "cond": cd, "out": out})
        groups.append({"n": g["n"], "d": g["d"], "b": g["b"], "cdoms": item["cdoms"], "recs": recs, "gid": item["gid"]})
    json.dump(groups, open(sys.argv[2], "w"))


main()

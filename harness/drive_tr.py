"""Driver for C05 / C06(transport): run identify_target_outcomes on TLC-generated surrogate-outcome problems.

usage: drive_tr.py <in.json> <out.json>
in: list of {"g", "gid", "qs": [[x, y], ...], "doms": [[z, w], ...]}; out: TV groups with pops = the domains.
"""

from __future__ import annotations

import json
import sys

import ser
from ser import build_graph, exc_class, pop_num, pop_var, project, ser_expr, var


def main():
    from y0.algorithm.transport import identify_target_outcomes

    groups = []
    for item in json.load(open(sys.argv[1])):
        g = item["g"]
        doms = item["doms"]
        recs = []
        for qi, (x, y) in enumerate(item["qs"]):
            for order in range(item.get("orders", 1)):
                # odd scenarios: names V<perm(i)> (alphabetical order unrelated to the numbering)
                ser.set_naming("permuted", len(groups) * 31 + qi) if order % 2 else ser.set_naming("V")
                graph = build_graph(g, order)
                before = json.dumps(project(graph), sort_keys=True)
                so = {pop_var(k + 1): {var(i) for i in w} for k, (z, w) in enumerate(doms)}
                si = {pop_var(k + 1): {var(i) for i in z} for k, (z, w) in enumerate(doms)}
                if order % 2:  # the two dictionaries filled in different key orders
                    si = dict(reversed(list(si.items())))
                if order % 4 >= 2:
                    so = dict(reversed(list(so.items())))
                try:
                    e = identify_target_outcomes(graph, target_outcomes={var(i) for i in y},
                                                 target_interventions={var(i) for i in x},
                                                 surrogate_outcomes=so, surrogate_interventions=si)
                    if e is None:
                        out = {"k": "unident"}
                    else:
                        try:
                            out = {"k": "expr", "e": ser_expr(e, pop=pop_num), "str": str(e)[:400]}
                        except Exception as exc:  # noqa: BLE001
                            out = {"k": "expr", "unser": f"{exc_class(exc)}: {exc}"[:160], "str": str(e)[:400]}
                except Exception as exc:  # noqa: BLE001
                    out = {"k": "exc", "exc": exc_class(exc), "msg": str(exc)[:160]}
                if out["k"] != "exc" and json.dumps(project(graph), sort_keys=True) != before:
                    out = {"k": "mutated", "was": out["k"]}
                ser.set_naming("V")
                recs.append({"id": f"{item['gid']}:{qi}:{order}", "k": "tr", "x": x, "y": y, "out": out})
        groups.append({"n": g["n"], "d": g["d"], "b": g["b"], "pops": [{"z": z, "w": w} for z, w in doms], "recs": recs,
                       "gid": item["gid"]})
    json.dump(groups, open(sys.argv[2], "w"))


if __name__ == "__main__":
    main()

"""C17: Tian-Pearl c-factor identification returns the true c-factor.

Design level: ID.tla TianIdentify/QLemma1/QLemma4 (Lemmas 1, 3, 4 as term constructors) are model-checked sound
against the SCM semantics and complete w.r.t. TIdent on every 3-node ADMG (IDMachine mode tian).  Conformance:
compute_c_factor, identify_district_variables, compute_ancestral_set_q_value on every TLC-generated
(G, district T, C, topological order) are validated by TLC against Q[S] = P(S | do(V \\ S)).
"""

from __future__ import annotations

import json
import random

import idcommon as ic
from common import NCPU, NSHARDS, shard_hashseed, Outcome, drive, run_parallel, seed, workdir

PID = "C17"


def warm():
    wd = workdir("c17-warm")
    ic.mc(wd, "A3", "tian")
    ic.gen(wd, "A3", "tian")
    ic.gen(wd, "A4o", "tian")


def run_y0(wd, items):
    shards = [items[i::NSHARDS] for i in range(NSHARDS)]
    jobs = []
    for i, sh in enumerate(shards):
        if sh:
            f = wd / f"c17-in{i}.json"
            f.write_text(json.dumps([{"g": it["g"], "gid": it["gid"], "qs": [q[:3] + q[4:5] for q in it["qs"]]} for it in sh]))
            jobs.append((f, wd / f"c17-out{i}.json", i))

    def one(job):
        drive("drive_tian.py", [str(job[0]), str(job[1])], hashseed=shard_hashseed(job[2]))
        return json.loads(job[1].read_text())

    return [g for r in run_parallel(one, jobs) for g in r]


def run(tier: str) -> int:
    out = Outcome(PID, tier)
    wd = workdir(PID)
    mcs = [ic.mc(wd, "A3", "tian")[0]]
    g3 = ic.gen(wd, "A3", "tian")[0]
    g4 = ic.gen(wd, "A4o", "tian")[0]
    rng = random.Random(1700 + seed())
    items = ic.with_gids(g3["items"], "A3-")
    a4 = ic.with_gids(g4["items"], "A4o-")
    for it in a4:  # up to 24 orders x pairs per graph: keep a seeded slice of the (T, C, order) triples
        if len(it["qs"]) > 12:
            it["qs"] = rng.sample(it["qs"], 12)
    items += ic.sample(a4, 600 if tier == "quick" else 4096, rng)
    r5 = ic.gen(wd, "RND", "tian", rnd_seed=17 + seed(), rndn=5, rndk=4 if tier == "quick" else 8)[0]
    r5i = ic.with_gids(r5["items"], "R5-")
    for it in r5i:
        it["qs"] = rng.sample(it["qs"], min(len(it["qs"]), 16))
    items += r5i
    groups = run_y0(wd, items)
    vs, st, by_id = ic.judge(wd, groups, seeds=(1, 2) if tier == "quick" else (1, 2, 3))
    # records carry "s" instead of x/y: key them by (graph, routine, s)
    seen = set()
    for rid, v in sorted(vs.items()):
        if v["ok"]:
            continue
        g, r = by_id[rid]
        key = json.dumps({"g": {k: g[k] for k in "ndb"}, "routine": rid.rsplit(":", 1)[1], "s": r["s"]}, sort_keys=True)
        sig = v["clause"] + (f":{r['out'].get('exc')}" if r["out"]["k"] == "exc" else "") + (f":{v['c']['sig']}" if v["clause"] == "value" else "")
        if (key, sig) not in seen:
            seen.add((key, sig))
            out.fail(key, sig, {"record": r, "verdict": v, "id": rid})
    idx = {(it["gid"], qi): q for it in items for qi, q in enumerate(it["qs"])}
    spurious = 0
    for rid, v in vs.items():
        gid, qi, kind = rid.split(":")
        if kind in ("id", "idp") and v["clause"] == "refused" and idx[(gid, int(qi))][3]:
            spurious += 1
    sem = sorted(i for i, v in vs.items() if v["clause"] == "ok")
    per = {}
    for i in sem:
        per[i.rsplit(":", 1)[1]] = per.get(i.rsplit(":", 1)[1], 0) + 1
    cov = {
        "states": sum(m["distinct"] for m in mcs) + g3["distinct"] + g4["distinct"] + r5["distinct"] + st["distinct"],
        "transitions": sum(m["generated"] for m in mcs) + g3["generated"] + g4["generated"] + r5["generated"] + st["generated"],
        "traces_validated_against_impl": len(vs),
        "expressions_evaluated_per_routine": per,
        "identify_refusals_where_reference_succeeds": spurious,
        "distinct_nontrivial": len({json.dumps([by_id[i][0]["d"], by_id[i][0]["b"], by_id[i][1]["s"], i.rsplit(":", 1)[1]]) for i in sem if by_id[i][0]["b"]}),
        "rule": "one record = one call of compute_c_factor (cf: Lemma 1 on a district T; l4: Lemma 4 inside an ancestral set), "
                "identify_district_variables (id) or compute_ancestral_set_q_value (an) with arguments produced from TLC-generated "
                "(G, T, C, topological order); the returned term is evaluated by TLC and compared with Q[S]=P(S|do(V\\S)); all "
                "3-node ADMGs x all (T, C, order) exhaustively, seeded 4-/5-node slices; non-trivial = distinct (graph, routine, S) "
                "with a bidirected edge",
        "samples": [{"id": i, "graph": {k: by_id[i][0][k] for k in "ndb"}, "S": by_id[i][1]["s"], "expr": by_id[i][1]["out"].get("str")}
                    for i in sem[:: max(1, len(sem) // 3)][:3]],
        "exhaustive": False,
        "design_mc": mcs,
        "clauses": {c: sum(1 for v in vs.values() if v["clause"] == c) for c in {v["clause"] for v in vs.values()}},
    }
    return out.finish("model_checking", cov, [
        "a refusal by identify_district_variables is always accepted (the statement allows 'or reports failure'); refusals where the reference IDENTIFY succeeds are counted in the evidence",
        "SCM family S, binary variables, GF(32749)"])

"""usage: seedmeta.py <seed name> <property> <detected: yes|no> <what was run / result>"""
import json, os, sys
name, pid, det, ran = sys.argv[1:5]
d = f"/verif/seeded/{name}"
a = json.load(open(f"{d}/meta.agent.json")) if os.path.exists(f"{d}/meta.agent.json") else json.load(open(f"{d}/meta.json"))
m = {"property": pid, "summary": a.get("summary"), "needs": a.get("needs"), "files": a.get("files"),
     "confirmed": "demo.py exits 1 with the patch and 0 without, existing suite 387 passed with the patch (harness/seedverify.sh in a scratch worktree)",
     "checks_run": ran, "detected": det == "yes"}
json.dump(m, open(f"{d}/meta.json", "w"), indent=1)
if os.path.exists(f"{d}/meta.agent.json"):
    os.remove(f"{d}/meta.agent.json")

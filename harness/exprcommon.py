"""Shared by C10-C13: TLC-generated math terms (ExprCalc.tla), replay through the real DSL, validation by TLC."""

from __future__ import annotations

import json
import random

import tv
from common import NCPU, NSHARDS, shard_hashseed, MachineryError, cached, drive, run_parallel, tagged_lines, tlc, tlc_ok, tlc_violation


def _cfg(wd, nn, atoms, depth, check, emit) -> str:
    f = wd / f"ExprCalc_{nn}_{atoms}_{depth}_{int(check)}_{int(emit)}.cfg"
    f.write_text(f'SPECIFICATION Spec\nCONSTANTS\n  NNames = {nn}\n  AtomSet = "{atoms}"\n  MaxDepth = {depth}\n'
                 f"  Seeds = {{1, 2}}\n  Check = {'TRUE' if check else 'FALSE'}\n"
                 + ("INVARIANT RefRewritesSound\nINVARIANT CondNormalised\n" if check else "")
                 + ("INVARIANT Emit\n" if emit else "") + "CHECK_DEADLOCK FALSE\n")
    return str(f)


def mc(wd, nn=3, atoms="full", depth=1):
    def go():
        r = tlc("ExprCalc.tla", _cfg(wd, nn, atoms, depth, True, False), workers=NCPU, meta=wd / "ecmc")
        v = tlc_violation(r)
        if v:
            raise MachineryError(f"ExprCalc design check: {v} violated\n" + r["out"][-3000:])
        tlc_ok(r, "ExprCalc MC")
        return {"generated": r["generated"], "distinct": r["distinct"], "invariants": ["RefRewritesSound", "CondNormalised"],
                "atoms": atoms, "depth": depth}
    return cached(f"ec-mc-{nn}-{atoms}-{depth}", go, module="ExprCalc")


def gen(wd, nn=3, atoms="full", depth=1):
    """Every reachable math term up to the depth (BFS by TLC), as {"id", "d", "m"}."""
    def go():
        r = tlc("ExprCalc.tla", _cfg(wd, nn, atoms, depth, False, True), workers=NCPU, meta=wd / "ecgen", xmx="6g")
        tlc_ok(r, "ExprCalc gen")
        ts = tagged_lines(r["out"], "CALC")
        ts.sort(key=lambda t: json.dumps(t, sort_keys=True))
        return {"terms": ts, "generated": r["generated"], "distinct": r["distinct"]}
    return cached(f"ec-gen-{nn}-{atoms}-{depth}", go, module="ExprCalc")


def gen_x(wd):
    """ExprCalcX.tla: the calculator started from the four-name alphabet of interventional / counterfactual joints, depth 1."""
    def go():
        cfg = wd / "ExprCalcX.cfg"
        cfg.write_text('SPECIFICATION SpecX\nCONSTANTS\n  NNames = 4\n  AtomSet = "full"\n  MaxDepth = 1\n  Seeds = {1}\n  Check = FALSE\n'
                       "INVARIANT Emit\nCHECK_DEADLOCK FALSE\n")
        r = tlc("ExprCalcX.tla", str(cfg), workers=4, meta=wd / "ecxgen")
        tlc_ok(r, "ExprCalcX gen")
        ts = tagged_lines(r["out"], "CALC")
        ts.sort(key=lambda t: json.dumps(t, sort_keys=True))
        return {"terms": ts, "generated": r["generated"], "distinct": r["distinct"]}
    return cached("ecx-gen-4-1", go, module="ExprCalcX")


def sim(wd, nn, atoms, depth, num, tlc_seed, cap=40000):
    """Random walks of the machine (tlc -simulate).  TLC evaluates the Emit invariant on every successor it generates
    along a walk (about 90 per step), so a walk contributes the terms on it and all their neighbours; `num` walks give
    roughly num * depth * 90 lines.  Lines are de-duplicated as raw strings and capped before they are parsed."""
    r = tlc("ExprCalc.tla", _cfg(wd, nn, atoms, depth, False, True), workers=1, meta=wd / "ecsim",
            simulate=f"num={num}", depth=depth + 1, tlc_seed=tlc_seed)
    if "Error:" in r["out"]:
        raise MachineryError("ExprCalc simulate failed:\n" + r["out"][-2000:])
    pre = '<<"CALC", '
    uniq = sorted({line for line in r["out"].splitlines() if line.startswith(pre)})
    if len(uniq) > cap:
        uniq = random.Random(tlc_seed).sample(uniq, cap)
    r["out"] = "\n".join(uniq)
    ts = tagged_lines(r["out"], "CALC")
    return {"terms": ts, "generated": r["generated"], "distinct": len(ts)}


def calc_group(nn: int, recs: list) -> dict:
    names = list(range(1, nn + 1))
    return {"n": names, "d": [[u, v] for u in names for v in names if u < v],
            "b": [[u, v] for u in names for v in names if u < v],
            "pops": [{"tag": [1] * nn}, {"tag": [2] * nn}], "recs": recs}


def run_y0(wd, terms: list[dict], tag: str, hashseed=None) -> tuple[list, dict]:
    shards = [terms[i::NSHARDS] for i in range(NSHARDS)]
    jobs = []
    for i, sh in enumerate(shards):
        if sh:
            f = wd / f"{tag}-in{i}.json"
            f.write_text(json.dumps(sh))
            jobs.append((f, wd / f"{tag}-out{i}.json", i))

    def one(job):
        drive("drive_expr.py", [str(job[0]), str(job[1])], hashseed=hashseed or shard_hashseed(job[2]))
        return json.loads(job[1].read_text())

    recs, stats = [], {}
    for r in run_parallel(one, jobs):
        recs += r["recs"]
        for k, v in r["stats"].items():
            stats[k] = stats.get(k, 0) + v
    return recs, stats


def with_ids(terms, prefix):
    return [{"id": f"{prefix}{i}", "m": t["m"], "d": t["d"]} for i, t in enumerate(terms)]


def strip(rec):
    r = {k: v for k, v in rec.items() if k not in ("pre_str", "text", "a_str", "b_str")}
    if "out" in r:
        r["out"] = {k: v for k, v in r["out"].items() if k not in ("str", "msg")}
    return r


def judge(wd, nn, recs, *, seeds=(1, 2), tag="tvx"):
    by_id = {r["id"]: r for r in recs}
    # records of the four-name alphabet (ExprCalcX.tla, ids contain "x4-") need four names whatever the caller asks for
    four = [r for r in recs if "x4-" in r["id"]]
    rest = [r for r in recs if "x4-" not in r["id"]]
    groups = []
    for k, part in ((nn, rest), (4, four)):
        chunks = [part[i::NCPU] for i in range(NCPU)]
        groups += [calc_group(k, [strip(r) for r in c]) for c in chunks if c]
    vs, st = tv.validate(wd, groups, seeds=seeds, layout="clique", fam="F", tag=tag)
    return vs, st, by_id


def root_ops(x, acc=None):
    acc = acc if acc is not None else []
    acc.append(x["op"])
    for k in ("a", "b"):
        if k in x and isinstance(x[k], dict):
            root_ops(x[k], acc)
    return acc

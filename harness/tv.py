"""Trace validation: shard recorded groups over NCPU TLC processes running spec/TV.tla."""

from __future__ import annotations

import json

from common import NCPU, MachineryError, run_parallel, tagged_lines, tlc


def _cfg(wd, name, seeds, layout, ternary, fam="S", module_consts="") -> str:
    f = wd / f"{name}.cfg"
    f.write_text(
        "SPECIFICATION Spec\nCONSTANTS\n"
        f"  Seeds = {{{', '.join(str(s) for s in seeds)}}}\n"
        f'  Layout = "{layout}"\n'
        f"  Ternary = {{{', '.join(str(s) for s in ternary)}}}\n"
        f'  Fam = "{fam}"\n'
        f"{module_consts}"
        "POSTCONDITION Consumed\nCHECK_DEADLOCK FALSE\n"
    )
    return str(f)


def weight(grp: dict) -> int:
    return 1 + len(grp["recs"]) * (2 ** len(grp["n"])) * (1 + len(grp["b"]))


def validate(wd, groups: list[dict], *, seeds=(1, 2), layout="edge", ternary=(), fam="S", tag="tv",
             module="TV.tla", timeout=3000, shards: int = NCPU, diag: bool = False) -> tuple[dict, dict]:
    """Return ({record id: verdict}, stats). Raises MachineryError unless every record got a verdict."""
    groups = [g for g in groups if g["recs"]]
    # a group is validated on one shard: split the groups of larger graphs into chunks of records (the model tables are
    # rebuilt per chunk, which is cheap next to evaluating the records) so that one heavy graph cannot serialise a run
    split = []
    for g in groups:
        size = 6 if len(g["n"]) >= 6 else 12 if len(g["n"]) == 5 else 0
        if size and len(g["recs"]) > size:
            split += [dict(g, recs=g["recs"][i:i + size]) for i in range(0, len(g["recs"]), size)]
        else:
            split.append(g)
    groups = split
    if not groups:
        return {}, {"generated": 0, "distinct": 0, "shards": 0}
    # longest-processing-time-first assignment of groups to shards
    order = sorted(range(len(groups)), key=lambda i: -weight(groups[i]))
    bins = [[] for _ in range(min(shards, len(groups)))]
    load = [0] * len(bins)
    for i in order:
        k = load.index(min(load))
        bins[k].append(groups[i])
        load[k] += weight(groups[i])
    cfg = _cfg(wd, tag, seeds, layout, ternary, fam)
    jobs = []
    for k, b in enumerate(bins):
        f = wd / f"{tag}-trace{k}.json"
        f.write_text(json.dumps(b))
        jobs.append((k, f, b))

    def one(job):
        k, f, b = job
        r = tlc(module, cfg, workers=1, env={"TRACE_FILE": str(f), "TV_DIAG": "1" if diag else "0"}, meta=wd / f"{tag}-meta{k}",
                timeout=timeout, xmx="2g", gcthreads=2)
        out = r["out"]
        if "Model checking completed. No error has been found." not in out:
            raise MachineryError(f"TV shard {k} failed:\n" + "\n".join(out.splitlines()[-30:]))
        vs = tagged_lines(out, "TV")
        want = sum(len(g["recs"]) for g in b)
        if len(vs) != want:
            raise MachineryError(f"TV shard {k}: {len(vs)} verdicts for {want} records")
        return vs, r

    verdicts = {}
    stats = {"generated": 0, "distinct": 0, "shards": len(jobs)}
    for vs, r in run_parallel(one, jobs):
        for v in vs:
            verdicts[v["id"]] = v
        stats["generated"] += r["generated"]
        stats["distinct"] += r["distinct"]
    return verdicts, stats

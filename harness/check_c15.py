"""C15: implied conditional independencies are enumerated exactly."""

from __future__ import annotations

import json

import citrace
import examples as ex
import sepcommon as sc
from common import NCPU, SPEC, MachineryError, Outcome, cached, seed, tlc, tlc_ok, tlc_violation, workdir

PID = "C15"


def warm():
    sc.warm_all()
    wd = workdir("c15-warm")
    ci_mc(wd, "A3")
    ci_mc(wd, "A4o")


def ci_mc(wd, fam: str) -> dict:
    """Design level: the enumeration as a machine (CIMachine.tla: StartPair / Probe / GiveUp / Finish over the verdict table
    of Separation.tla), every behaviour ends in exactly the list the property demands."""
    def go():
        r = tlc("CIMachine.tla", SPEC / f"CIMachine_MC_{fam}.cfg", workers=NCPU, meta=wd / f"cimc{fam}", xmx="6g")
        v = tlc_violation(r)
        if v:
            raise MachineryError(f"CIMachine design check ({fam}): {v} violated\n" + r["out"][-2500:])
        tlc_ok(r, f"CIMachine {fam}")
        return {"module": "CIMachine", "family": fam, "generated": r["generated"], "distinct": r["distinct"],
                "invariants": ["Sound", "AtMostOne", "Exact", "TwoSided", "Progress"], "action_properties": ["Monotone"]}
    return cached(f"ci-mc-{fam}", go, module="CIMachine")[0]


def run(tier: str) -> int:
    out = Outcome(PID, tier)
    wd = workdir(PID)
    fams = ["A3", "A4o", "DAG5o"]
    mcs = [sc.mc(wd, f)[0] for f in fams]
    cimcs = [ci_mc(wd, "A3"), ci_mc(wd, "A4o")]
    gens = [sc.tables(wd, f)[0] for f in fams]
    recs = [r for g in gens for r in g["recs"]]
    r5 = sc.tables(wd, "RND", rnd_seed=700 + seed(), rndn=5, rndk=(5 if tier == "quick" else 30))[0]
    recs += r5["recs"]
    extra = {"generated": 0, "distinct": 0}
    if tier == "thorough":
        extra = sc.tables(wd, "A4")[0]
        recs = gens[0]["recs"] + extra["recs"] + r5["recs"] + gens[2]["recs"] + sc.tables(wd, "B5o")[0]["recs"]
    exf = ex.sep_tables(wd)   # the repository's example catalogue (5-8 nodes), tables by SepFile.tla
    recs += exf["recs"]
    bc5 = sc.tables_extra(wd, "BC5")[0]   # 5-node ADMGs around a chain of three bidirected colliders (SepExtra.tla)
    recs += bc5["recs"] if tier == "thorough" else bc5["recs"][::3]   # quick: every third graph (the enumeration is exponential)
    n_orders = 3
    stats, fails = sc.replay(wd, "ci", recs, n_orders)
    seen = set()
    for f in fails:
        key = json.dumps({"g": f["g"], "k": f["k"], "policy": f["policy"]}, sort_keys=True)
        sig = f["clause"] + (":" + f["exc"] if "exc" in f else "")
        if (key, sig) in seen:
            continue
        seen.add((key, sig))
        out.fail(key, sig, f)
    # trace direction: what the real generator d_separations yields, in order, must be a behaviour of CIMachine.tla
    # (CITrace.tla; silent steps and the reading of the limit are inferred by TLC)
    import random
    trng = random.Random(1500 + seed())
    titems = [{"id": f"A3-{i}", "g": citrace.norm(r["g"]), "ks": [-1, 0, 1, 2]} for i, r in enumerate(gens[0]["recs"])]
    titems += [{"id": f"A4o-{i}", "g": citrace.norm(r["g"]), "ks": [-1, 1, 2]}
               for i, r in enumerate(trng.sample(gens[1]["recs"], 150 if tier == "quick" else 1500))]
    titems += [{"id": f"BC5-{i}", "g": citrace.norm(r["g"]), "ks": [-1, 2]}
               for i, r in enumerate(trng.sample(bc5["recs"], 40 if tier == "quick" else 300))]
    titems += [{"id": f"EX-{i}", "g": citrace.norm(r["g"]), "ks": [-1, 2]} for i, r in enumerate(exf["recs"]) if len(r["g"]["n"]) <= 6]
    tr = citrace.validate(wd, titems)
    for t in tr.pop("rejected"):
        out.fail(json.dumps({"g": t["g"], "k": t["k"], "api": "d_separations"}, sort_keys=True),
                 "trace-rejected" + (":" + t["exc"] if "exc" in t else ""), {"trace": t, "spec": "CITrace.tla"})
    cov = {
        "states": tr["distinct"] + sum(m["distinct"] for m in mcs + cimcs) + sum(g["distinct"] for g in gens) + r5["distinct"] + extra["distinct"] + exf["distinct"] + bc5["distinct"],
        "transitions": sum(m["generated"] for m in mcs + cimcs) + sum(g["generated"] for g in gens) + r5["generated"] + extra["generated"] + exf["generated"] + bc5["generated"],
        "traces_validated_against_impl": stats.get("calls", 0),
        "judgements_checked": stats.get("judgements", 0),
        "graphs": len(recs),
        "design_mc_enumeration_machine": cimcs,
        "generator_traces_validated_by_CITrace": tr,
        "example_catalogue_graphs": exf["names"],
        "samples": [{"g": recs[5]["g"], "min": recs[5]["min"]}, {"g": recs[-1]["g"], "min": recs[-1]["min"]}],
        "exhaustive": True,
        "size_limits": ["None", 0, 1, 2, 3, "n", "n+1"],
        "policies": ["topological (default)", "len_lex"],
        "history_replays": stats.get("grow_steps", 0),
        "distinct_nontrivial": sum(1 for r in recs if r["g"]["b"] and any(m[2] not in (0, 99) for m in r["min"])),
        "rule": "one call = (ADMG, size limit k, retention policy, insertion order); families: all 3-node ADMGs, all topologically "
                "numbered 4-node ADMGs, all 1024 topologically numbered 5-node DAGs, family BC5 (744 five-node ADMGs around a chain of three bidirected colliders; quick: every third), seeded 5-node ADMGs (thorough: all labelled "
                "4-node ADMGs, 6380 sparse 5-node ADMGs with one bidirected edge); the second insertion order replays SepMachine's "
                "Grow action on one object (list, add an edge in place, list again); expected: exactly one canonical, "
                "true, minimum-size judgement for every pair whose minimum separator size (MinSizes in Separation.tla) "
                "is within the limit; the limit is accepted inclusive or exclusive (statement does not fix it); "
                "non-trivial = graph with bidirected edge and a pair that needs a non-empty separator",
    }
    return out.finish("model_checking", cov, [
        "expected pairs/min sizes are computed by TLC from MSepPath (Separation.tla)",
        "max_conditions=k may be read as |C| <= k or |C| < k; both accepted, anything outside both is a violation"])

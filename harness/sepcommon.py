"""Shared by C04 / C15 / C20: design-level MC of SepMachine.tla and generation of verdict tables."""

from __future__ import annotations

import json

from common import (NCPU, NSHARDS, shard_hashseed, SPEC, MachineryError, Outcome, cached, drive, run_parallel, seed,
                    tagged_lines, tlc, tlc_ok, tlc_violation, workdir)


def _cfg(wd, family: str, invariants: list[str], rndn=5, rndk=8, grows=False) -> str:
    f = wd / f"Sep_{family}_{'_'.join(invariants)}.cfg"
    inv = "\n".join(f"INVARIANT {i}" for i in invariants) + ("\nPROPERTY GrowAntiMonotone" if grows else "")
    f.write_text(f'SPECIFICATION Spec\nCONSTANTS\n  Family = "{family}"\n  RndN = {rndn}\n  RndK = {rndk}\n'
                 f"  Grows = {'TRUE' if grows else 'FALSE'}\n{inv}\nCHECK_DEADLOCK FALSE\n")
    return str(f)


GROW_FAMILIES = ("A3", "M3", "A4o")   # closed under edge deletion: the history action Grow is model-checked on them


def mc(wd, family: str) -> dict:
    def go():
        r = tlc("SepMachine.tla", _cfg(wd, family, ["EquivOnADMG", "SigmaLaws", "DevInvisibleSmallADMG"], grows=family in GROW_FAMILIES), workers=NCPU, meta=wd / f"mc{family}")
        v = tlc_violation(r)
        if v:
            raise MachineryError(f"SepMachine design check ({family}): {v} violated\n" + r["out"][-3000:])
        tlc_ok(r, f"SepMachine MC {family}")
        return {"generated": r["generated"], "distinct": r["distinct"], "family": family}
    return cached(f"sep-mc-{family}", go, module="SepMachine")


def tables(wd, family: str, *, rnd_seed: int | None = None, rndn=5, rndk=8) -> dict:
    def go():
        r = tlc("SepMachine.tla", _cfg(wd, family, ["Emit"], rndn, rndk), workers=NCPU,
                meta=wd / f"gen{family}", tlc_seed=rnd_seed)
        if "Error:" in r["out"]:
            raise MachineryError(f"SepMachine generator ({family}) failed:\n" + r["out"][-3000:])
        recs = tagged_lines(r["out"], "SEP")
        return {"recs": recs, "generated": r["generated"], "distinct": r["distinct"]}
    if rnd_seed is not None:
        return go(), False
    return cached(f"sep-gen-{family}", go, module="SepMachine")


def tables_extra(wd, family: str) -> dict:
    """Families of SepExtra.tla (same machine, other initial states): design-level invariants and tables in one run."""
    def go():
        f = wd / f"SepExtra_{family}.cfg"
        f.write_text(f'SPECIFICATION SpecX\nCONSTANTS\n  Family = "{family}"\n  RndN = 5\n  RndK = 1\n  Grows = FALSE\n'
                     "INVARIANT EquivOnADMG\nINVARIANT SigmaLaws\nINVARIANT Emit\nCHECK_DEADLOCK FALSE\n")
        r = tlc("SepExtra.tla", str(f), workers=NCPU, meta=wd / f"genx{family}", xmx="6g")
        v = tlc_violation(r)
        if v:
            raise MachineryError(f"SepExtra design check ({family}): {v} violated\n" + r["out"][-3000:])
        tlc_ok(r, f"SepExtra {family}")
        return {"recs": tagged_lines(r["out"], "SEP"), "generated": r["generated"], "distinct": r["distinct"], "family": family}
    return cached(f"sep-genx-{family}", go, module="SepExtra")


def warm_all() -> None:
    wd = workdir("sep-warm")
    for fam in ("A3", "A4o", "M3", "C5", "D5", "DAG5o"):
        mc(wd, fam)
        tables(wd, fam)
    tables_extra(wd, "BC5")


def gkey(g) -> str:
    return json.dumps({"n": sorted(g["n"]), "d": sorted(list(e) for e in g["d"]), "b": sorted(sorted(e) for e in g["b"])}, sort_keys=True)


def attach_histories(recs: list) -> int:
    """For every record whose graph minus one edge is also in the table family, attach that predecessor (graph, tables,
    the edge): a Grow step of SepMachine.tla.  The edge alternates between bidirected and directed where both exist."""
    by = {gkey(r["g"]): r for r in recs}
    n = 0
    for i, r in enumerate(recs):
        g = r["g"]
        d = sorted(list(e) for e in g["d"])
        b = sorted(sorted(e) for e in g["b"])
        cands = [("b", e) for e in b] + [("d", e) for e in d] if i % 2 == 0 else [("d", e) for e in d] + [("b", e) for e in b]
        if not cands:
            continue
        same = [c for c in cands if c[0] == cands[0][0]]
        k, e = same[(i // 2) % len(same)]
        pg = {"n": g["n"], "d": [x for x in d if not (k == "d" and x == e)], "b": [x for x in b if not (k == "b" and x == e)]}
        prev = by.get(gkey(pg))
        if prev is None:
            continue
        r["prev"] = {kk: prev[kk] for kk in prev if kk != "prev"}
        r["prev"]["edge"] = {"k": k, "e": e}
        n += 1
    return n


def replay(wd, mode: str, recs: list, n_orders: int) -> tuple[dict, list]:
    if mode in ("dsep", "ci", "sigma"):
        recs = [dict(r) for r in recs]
        attach_histories(recs)
    shards = [recs[i::NSHARDS] for i in range(NSHARDS)]
    jobs = []
    for i, sh in enumerate(shards):
        if not sh:
            continue
        f = wd / f"{mode}-in{i}.json"
        f.write_text(json.dumps(sh))
        jobs.append((f, wd / f"{mode}-out{i}.json", i))

    def one(job):
        drive("drive_sep.py", [mode, str(job[0]), str(job[1]), str(n_orders)], hashseed=shard_hashseed(job[2]))
        return json.loads(job[1].read_text())

    stats: dict[str, int] = {}
    fails = []
    for r in run_parallel(one, jobs):
        for k, v in r["stats"].items():
            stats[k] = stats.get(k, 0) + v
        fails += r["fails"]
    return stats, fails

"""C14 driver (replay direction): step TLC-generated behaviours of GraphOps.tla through NxMixedGraph.

usage: drive_graph.py <behaviours.json> <out.json> <n_orders>
Expected values are the ones TLC printed; this script only compares.
"""

from __future__ import annotations

import json
import sys
import traceback

from ser import build_graph, norm_graph, num, project, var
from y0.dsl import CounterfactualVariable
from y0.graph import get_nodes_in_directed_paths


def vs(xs):
    return {var(i) for i in xs}


def names(xs):
    return sorted(num(x) for x in xs)


def pg(graph):
    p = project(graph)
    return {"n": p["n"], "d": p["d"], "b": p["b"]}


def apply(graph, op, arg):
    """Return ('graph', NxMixedGraph) or ('obs', comparable-json)."""
    if op == "subgraph":
        return "graph", graph.subgraph(vs(arg))
    if op == "remove_in_edges":
        return "graph", graph.remove_in_edges(vs(arg))
    if op == "remove_out_edges":
        return "graph", graph.remove_out_edges(vs(arg))
    if op == "remove_nodes_from":
        return "graph", graph.remove_nodes_from(vs(arg))
    if op == "moralize":
        return "graph", graph.moralize()
    # in-place mutators: the same object is kept (kind "mutated")
    if op == "add_node":
        graph.add_node(var(arg[0]))
        return "mutated", graph
    if op == "add_directed_edge":
        graph.add_directed_edge(var(arg[0]), var(arg[1]))
        return "mutated", graph
    if op == "add_undirected_edge":
        graph.add_undirected_edge(var(arg[0]), var(arg[1]))
        return "mutated", graph
    if op == "intervene":
        ivs = {-var(i) for i in arg}
        res = graph.intervene(ivs)

        def nm(x):
            if not isinstance(x, CounterfactualVariable) or x.interventions != frozenset(ivs):
                raise ValueError(f"node {x!r} of intervened graph is not <node> @ interventions")
            return num(x)

        p = project(res, nm)
        return "obs", {"n": p["n"], "d": p["d"], "b": p["b"]}
    if op == "ancestors_inclusive":
        return "obs", names(graph.ancestors_inclusive(vs(arg)))
    if op == "descendants_inclusive":
        return "obs", names(graph.descendants_inclusive(vs(arg)))
    if op == "districts":
        ds = graph.districts()
        return "obs", sorted(names(d) for d in ds)
    if op == "get_markov_pillow":
        return "obs", names(graph.get_markov_pillow(vs(arg)))
    if op == "get_markov_blanket":
        return "obs", names(graph.get_markov_blanket(vs(arg)))
    if op == "disorient":
        r = graph.disorient()
        return "obs", {"n": names(r.nodes()), "e": sorted(sorted([num(u), num(v)]) for u, v in r.edges())}
    if op == "topological_sort":
        return "member", [num(x) for x in graph.topological_sort()]
    if op == "pre_order":
        s, order = arg
        return "obs_seq", [num(x) for x in graph.pre(vs(s), [var(i) for i in order])]
    if op == "pre":
        return "member", [num(x) for x in graph.pre(vs(arg))]
    if op == "get_district":
        return "obs", names(graph.get_district(var(arg[0])))
    if op == "get_no_effect_on_outcomes":
        s, t = arg
        return "obs", names(graph.get_no_effect_on_outcomes(vs(s), vs(t)))
    if op == "get_intervened_ancestors":
        s, t = arg
        return "obs", names(graph.get_intervened_ancestors(vs(s), vs(t)))
    if op == "is_a_fixable":
        from y0.graph import is_a_fixable
        return "obs", [bool(is_a_fixable(graph, var(arg[0])))]
    if op == "is_p_fixable":
        from y0.graph import is_p_fixable
        return "obs", [bool(is_p_fixable(graph, var(arg[0])))]
    if op == "get_nodes_in_directed_paths":
        s, t = arg
        return "obs", names(get_nodes_in_directed_paths(graph, vs(s), vs(t)))
    raise KeyError(op)


def norm_expected(op, res):
    if op in ("intervene",):
        return norm_graph(res)
    if op == "disorient":
        return {"n": sorted(res["n"]), "e": sorted(sorted(e) for e in res["e"])}
    if op == "districts":
        return sorted(sorted(d) for d in res)
    if op in ("topological_sort", "pre"):
        return [list(o) for o in res]
    if op == "pre_order":
        return list(res)
    return sorted(res)


def main():
    behs = json.load(open(sys.argv[1]))
    n_orders = int(sys.argv[3])
    fails = []
    steps = 0
    opcount = {}
    for bi, beh in enumerate(behs):
        for order in range(n_orders):
            graph = build_graph(beh[0]["g"], order)
            for si, st in enumerate(beh[1:], start=1):
                op, arg = st["op"], st["arg"]
                steps += 1
                opcount[op] = opcount.get(op, 0) + 1
                before = pg(graph)
                keep = graph.copy()
                try:
                    kind, got = apply(graph, op, arg)
                except Exception as exc:  # noqa: BLE001
                    fails.append(
                        {"beh": bi, "step": si, "order": order, "op": op, "arg": arg,
                         "clause": "raised", "exc": type(exc).__name__, "msg": str(exc)[:200],
                         "tb": traceback.format_exc()[-600:], "behaviour": beh}
                    )
                    break
                after = pg(graph)
                if kind == "mutated":
                    exp = norm_graph(st["g"])
                    if after != exp or pg(keep) != before:
                        fails.append({"beh": bi, "step": si, "order": order, "op": op, "arg": arg, "clause": "wrong-result",
                                      "expect": exp, "got": after, "behaviour": beh})
                        break
                    continue
                if after != before or not (graph == keep):
                    fails.append({"beh": bi, "step": si, "order": order, "op": op, "arg": arg,
                                  "clause": "receiver-modified", "before": before, "after": after,
                                  "behaviour": beh})
                    break
                bad = None
                if kind == "graph":
                    exp = norm_graph(st["g"])
                    gotp = pg(got)
                    if gotp != exp:
                        bad = {"expect": exp, "got": gotp}
                    graph = got
                elif kind == "member":
                    exp = norm_expected(op, st["res"])
                    if got not in exp:
                        bad = {"expect_one_of": exp, "got": got}
                else:
                    exp = norm_expected(op, st["res"])
                    if got != exp:
                        bad = {"expect": exp, "got": got}
                if bad:
                    bad.update({"beh": bi, "step": si, "order": order, "op": op, "arg": arg,
                                "clause": "wrong-result", "behaviour": beh})
                    fails.append(bad)
                    break
    json.dump({"behaviours": len(behs), "steps": steps, "ops": opcount, "fails": fails},
              open(sys.argv[2], "w"))


if __name__ == "__main__":
    main()

"""Driver for C01/C02/C03/C06: run the real ID / IDC on TLC-generated queries and record the outcomes.

usage: drive_id.py <in.json> <out.json> <n_orders> <semantic: 0|1>
in: list of {"g": {n,d,b}, "qs": [[x,y,z], ...]};  out: list of TV groups.
No expected value is computed here: outcomes are only serialised.
"""

from __future__ import annotations

import json
import sys

import ser
from ser import build_graph, exc_class, num, project, ser_expr, var


def snapshot(graph, x, y, z):
    p = project(graph)
    return json.dumps([p, sorted(map(str, x)), sorted(map(str, y)), sorted(map(str, z or []))], sort_keys=True)


def call(graph, x, y, z, api):
    from y0.algorithm.identify import Identification, Query, Unidentifiable, identify, identify_outcomes
    from y0.algorithm.identify.id_c import idc

    xs, ys = {var(i) for i in x}, {var(i) for i in y}
    zs = {var(i) for i in z} if z else None
    before = snapshot(graph, xs, ys, zs)
    q = None
    try:
        if api == 0:
            e = identify_outcomes(graph, xs, ys, zs)
            out = {"k": "unident"} if e is None else {"k": "expr", "e": e}
        else:
            if api == 2:
                # the documented entry point: the query written as a probability term, P[X](Y | Z)
                from y0.dsl import Distribution, P
                dist = Distribution(children=tuple(sorted(ys, key=str)), parents=tuple(sorted(zs or (), key=str)))
                ident = Identification.from_expression(graph=graph, query=P[xs](dist) if xs else P(dist))
                q = ident.query
                if q.treatments != xs or q.outcomes != ys or q.conditions != (zs or set()):
                    raise AssertionError(f"from_expression read {q.outcomes} | do {q.treatments} | {q.conditions}")
            else:
                q = Query(treatments=xs, outcomes=ys, conditions=zs)
                ident = Identification(graph=graph, query=q)
            try:
                e = idc(ident) if zs else identify(ident)
                out = {"k": "expr", "e": e}
            except Unidentifiable:
                out = {"k": "unident"}
    except Exception as exc:  # noqa: BLE001
        out = {"k": "exc", "exc": exc_class(exc), "msg": str(exc)[:160]}
    after = snapshot(graph, xs, ys, zs)
    if q is not None and out["k"] != "exc":
        if q.treatments != xs or q.outcomes != ys or q.conditions != (zs or set()):
            after = "query-mutated"
    if before != after and out["k"] != "exc":
        out = {"k": "mutated", "was": out["k"]}
    return out


def with_history(g, graph, variant=0):
    """The same graph reached through a history on ONE object: built without one edge (a bidirected edge, or a pendant
    node with its only edge), queried, then completed in place with add_undirected_edge / add_directed_edge.  The
    answer must depend on (G, X, Y) alone."""
    from y0.algorithm.identify import identify_outcomes

    def warm(part, nodes):
        for a in nodes:       # warm-up queries on the partial graph (not the calls under test)
            for b in nodes:
                if a != b:
                    try:
                        identify_outcomes(part, {var(a)}, {var(b)})
                    except Exception:  # noqa: BLE001
                        pass

    bs = [list(e) for e in g["b"]]
    if bs and (variant % 2 == 0 or not g["d"]):
        u, v = bs[variant // 2 % len(bs)]
        part = build_graph({"n": g["n"], "d": g["d"], "b": [e for e in bs if e != [u, v]]}, 0)
        warm(part, g["n"])
        part.add_undirected_edge(var(u), var(v))
        return part
    for u, v in g["d"]:
        touches = [e for e in g["d"] if v in e] + [e for e in g["b"] if v in e]
        if len(touches) == 1 and len(g["n"]) >= 3:
            rest = [n for n in g["n"] if n != v]
            part = build_graph({"n": rest, "d": [e for e in g["d"] if v not in e], "b": [e for e in g["b"] if v not in e]}, 0)
            warm(part, rest)
            part.add_directed_edge(var(u), var(v))
            return part
    return graph


def main():
    src, dst, n_orders, semantic = sys.argv[1], sys.argv[2], int(sys.argv[3]), int(sys.argv[4])
    groups = []
    for gi, item in enumerate(json.load(open(src))):
        g = item["g"]
        recs = []
        for qi, (x, y, z) in enumerate(item["qs"]):
            for order in range(min(n_orders, item.get("orders", n_orders))):
                # second scenario: names V<perm(i)>, so alphabetical order and (topological) numbering are unrelated
                # (every other time: the names the library itself gives to latent parents, u_0, u_1, ...)
                if order == 1 and (gi + qi) % 2:
                    ser.set_naming("latent-like")
                elif order == 1:
                    ser.set_naming("permuted", gi * 31 + qi)
                else:
                    ser.set_naming("V")
                graph = build_graph(g, order)
                if order == 2:
                    graph = with_history(g, graph, qi)
                out = call(graph, x, y, z, api=(order + qi) % 3)   # identify_outcomes | Query + Identification | from_expression
                if out["k"] == "expr":
                    try:
                        t = ser_expr(out["e"])
                    except Exception as exc:  # noqa: BLE001  (unserialisable: foreign names etc.)
                        t = None
                        out = {"k": "expr", "unser": f"{exc_class(exc)}: {exc}"[:160], "str": str(out["e"])[:300]}
                    if t is not None:
                        out = {"k": "expr", "e": t, "str": str(out["e"])[:300]} if semantic else {"k": "expr", "str": str(out["e"])[:120]}
                ser.set_naming("V")
                rec = {"id": f"{item.get('gid', gi)}:{qi}:{order}", "k": "cdo" if z else "do", "x": x, "y": y, "out": out}
                if z:
                    rec["z"] = z
                recs.append(rec)
        groups.append({"n": g["n"], "d": g["d"], "b": g["b"], "recs": recs})
    json.dump(groups, open(dst, "w"))


if __name__ == "__main__":
    main()

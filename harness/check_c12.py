"""C12: see check_expr.py (one specification, one pipeline for C10-C13)."""
import check_expr as ce

PID = "C12"


def warm():
    ce.warm()


def run(tier):
    return ce.run_for(PID, tier, RULE, ASSUME)


RULE = ("one record = parse_y0(obj.to_y0()) for the really-built object of a TLC-generated math term; TLC requires a successful parse "
        "denoting the same quantity on all assignments of a generic distribution and, on the un-nested-division family, the same "
        "object and the same text; non-trivial = distinct printed text")
ASSUME = ["Python's tokenizer/eval is one opaque action: the spec constrains the round trip, not the parser's internals",
          "distributions that mention a name twice are skipped"]

"""C02 driver (replay direction): step TLC-generated behaviours of QueryMachine.tla through the real
y0.algorithm.identify.utils.Query and Identification objects.

usage: drive_query.py <behaviours.json> <out.json>
Expected values are the ones TLC printed; this script only compares.  After every step the projected state of
*every* object created so far (the spec's `objs`) is compared, so an in-place mutation of a receiver or an
aliased set shows up at the step that causes it; the argument containers are compared before and after as well.
"""

from __future__ import annotations

import json
import sys
import traceback

from ser import num, var
from y0.algorithm.identify.utils import Identification, Query
from y0.dsl import CounterfactualVariable, P, Probability
from y0.graph import NxMixedGraph


def vs(xs):
    return {var(i) for i in xs}


def pq(q):
    return {"y": sorted(num(v) for v in q.outcomes), "x": sorted(num(v) for v in q.treatments),
            "z": sorted(num(v) for v in q.conditions)}


def norm(r):
    return {k: sorted(r[k]) for k in ("y", "x", "z")}


def arg_forms(arg, k):
    """The same argument in the container types the API documents (Variable | Iterable[Variable])."""
    s = vs(arg)
    forms = [lambda: set(s), lambda: sorted(s, key=str), lambda: frozenset(s), lambda: tuple(sorted(s, key=str, reverse=True))]
    return forms[k % len(forms)]()


def project_expr(e):
    if not isinstance(e, Probability):
        raise TypeError(f"expression is {type(e).__name__}")
    if e.parents:
        raise ValueError("query term has conditions")
    ch, ivs = set(), None
    for c in e.children:
        these = frozenset(num(i) for i in c.interventions) if isinstance(c, CounterfactualVariable) else frozenset()
        if isinstance(c, CounterfactualVariable) and any(i.star for i in c.interventions):
            raise ValueError("starred intervention in a query term")
        if ivs is None:
            ivs = these
        elif ivs != these:
            raise ValueError("ragged interventions")
        ch.add(num(c))
    return {"ch": sorted(ch), "iv": sorted(ivs or ())}


def replay(beh, kind, form):
    """kind: 'query' (bare Query objects) or 'ident' (Identification objects carrying a graph and an estimand)."""
    init = beh[0]["q"]
    names = sorted(set(init["y"]) | set(init["x"]) | set(init["z"]) | {1, 2, 3})
    graph = NxMixedGraph.from_edges(nodes=[var(i) for i in names], directed=[(var(names[0]), var(names[-1]))],
                                    undirected=[(var(names[0]), var(names[1]))])
    estimand = P(*[var(i) for i in names])
    q0 = Query(vs(init["y"]), vs(init["x"]), vs(init["z"]))
    cur = q0 if kind == "query" else Identification(q0, graph, estimand)
    live = [(cur, norm(init))]
    fails = []
    for k, st in enumerate(beh[1:], start=1):
        op, arg, exp = st["op"], st["arg"], st["res"]
        try:
            a = arg_forms(arg, form + k)
            a_before = list(a) if not isinstance(a, (set, frozenset)) else set(a)
            new = obs = None
            if op == "exchange_observation_with_action":
                if len(arg) == 1 and (form + k) % 3 == 0:
                    a = next(iter(vs(arg)))
                    a_before = a
                new = cur.exchange_observation_with_action(a)
            elif op == "exchange_action_with_observation":
                if len(arg) == 1 and (form + k) % 3 == 0:
                    a = next(iter(vs(arg)))
                    a_before = a
                new = cur.exchange_action_with_observation(a)
            elif op == "with_treatments":
                new = cur.with_treatments(a)
            elif op == "uncondition":
                new = cur.uncondition()
            elif op == "expression":
                qq = cur if kind == "query" else cur.query
                obs = project_expr(qq.expression)
            elif op == "from_expression":
                qq = cur if kind == "query" else cur.query
                obs = pq(Query.from_expression(qq.expression))
            else:
                raise KeyError(op)
            if exp == "ValueError":
                fails.append({"step": k, "clause": "answered-instead-of-refusing", "op": op, "arg": arg})
                break
            if (a_before != (list(a) if isinstance(a, (list, tuple)) else a)):
                fails.append({"step": k, "clause": "argument-changed", "op": op, "arg": arg})
                break
            if new is not None:
                if type(new) is not type(cur):
                    fails.append({"step": k, "clause": "result-type", "op": op, "arg": arg, "got": type(new).__name__})
                    break
                got = pq(new if kind == "query" else new.query)
                if got != norm(st["q"]):
                    fails.append({"step": k, "clause": "state", "op": op, "arg": arg, "got": got, "want": norm(st["q"])})
                    break
                if kind == "ident" and (new.graph != graph or new.estimand != estimand):
                    fails.append({"step": k, "clause": "carried-graph-or-estimand-changed", "op": op, "arg": arg})
                    break
                cur = new
                live.append((cur, norm(st["q"])))
            else:
                want = norm(exp) if op == "from_expression" else {"ch": sorted(exp["ch"]), "iv": sorted(exp["iv"])}
                if obs != want:
                    fails.append({"step": k, "clause": "observation" if op == "expression" else "roundtrip", "op": op, "arg": arg, "got": obs, "want": want})
                    break
        except ValueError as exc:
            if exp != "ValueError":
                fails.append({"step": k, "clause": "other-failure", "op": op, "arg": arg, "exc": f"ValueError:{exc}"})
                break
        except Exception as exc:  # noqa: BLE001
            fails.append({"step": k, "clause": "other-failure", "op": op, "arg": arg, "exc": type(exc).__name__,
                          "tb": traceback.format_exc()[-600:]})
            break
        # persistence: every object created so far still has the value it was created with
        for j, (o, want) in enumerate(live):
            got = pq(o if kind == "query" else o.query)
            if got != want:
                fails.append({"step": k, "clause": "receiver-changed", "op": op, "arg": arg, "object": j, "got": got, "want": want})
                break
        if fails:
            break
    return fails


def main() -> None:
    behs = json.load(open(sys.argv[1]))
    fails, steps, ops = [], 0, {}
    for bi, beh in enumerate(behs):
        for kind in ("query", "ident"):
            fs = replay(beh, kind, bi)
            for f in fs:
                f["kind"] = kind
                f["behaviour"] = beh
            fails += fs
        steps += 2 * (len(beh) - 1)
        for st in beh[1:]:
            ops[st["op"]] = ops.get(st["op"], 0) + 2
    json.dump({"fails": fails, "steps": steps, "ops": ops, "behaviours": len(behs)}, open(sys.argv[2], "w"))


if __name__ == "__main__":
    main()

"""C09: counterfactual transport (ctfTRu / ctfTR) answers are correct.

Multi-domain functional family (TV.tla CDomModel): domain k is the target with fresh mechanisms at the nodes carrying a
selection node and at its policy variables, the edges into the policy variables removed, all other mechanisms, latents
and noise shared.  unconditional_cft / conditional_cft are run on TLC-generated events over 3-node ADMGs with 1-2
domains; the library's own validator is run first (a rejection there is accepted).  TLC validates: 'fail' accepted;
Zero only for impossible events; (expression, event) must equal the target-domain (conditional) probability under some
reading the returned event permits; any exception after validation is rejected.  Fixed deterministic family; known
findings listed by (input, signature).
"""

from __future__ import annotations

import itertools
import json

import cfcommon as cf
from check_c18 import cf_mc
from common import NCPU, Outcome, drive, run_parallel, workdir

PID = "C09"
SUBSETS = [list(c) for r in range(4) for c in itertools.combinations([1, 2, 3], r)]
CONFIGS = [{"s": s, "z": z} for s in SUBSETS for z in SUBSETS if not set(s) & set(z)]   # 27 (selection, policy) pairs


def warm():
    wd = workdir("c09-warm")
    cf.gen(wd, "A3", 3, 3, 2, False)


def records(wd, tier):
    g = cf.gen(wd, "A3", 3, 3, 2, False)[0]
    graphs = g["graphs"] if tier == "thorough" else g["graphs"][::2]
    singles = [e for e in g["events"] if len(e) == 1]
    pairs = [e for e in g["events"] if len(e) == 2]
    triples = [e for e in g["events"] if len(e) == 3]

    def chains(gr):
        """three-atom events that follow a directed chain c -> b -> a of the graph: {a_b, b_c, c}"""
        d = {tuple(e) for e in gr["d"]}
        out = []
        for e in triples:
            by = {x["n"]: x for x in e}
            if len(by) != 3:
                continue
            for a in by:
                for b in by:
                    for c in by:
                        if (len({a, b, c}) == 3 and (c, b) in d and (b, a) in d and [i[0] for i in by[a]["iv"]] == [b]
                                and [i[0] for i in by[b]["iv"]] == [c] and not by[c]["iv"]):
                            out.append(e)
        return out
    items = []
    for gi, gr in enumerate(graphs):
        for k in range(3 if tier == "quick" else 5):
            c1 = CONFIGS[(gi * 5 + k * 11) % 27]
            cd = [c1] if k % 3 != 2 else [c1, CONFIGS[(gi * 3 + k * 7 + 1) % 27]]
            ps = pairs[(gi * 13 + k * 101) % 97:: 97][:12]
            ch = chains(gr)
            items.append({"g": gr, "gid": f"A3-{gi}-{k}", "cdoms": cd,
                          "evs": singles[(gi + k) % 3:: 3] + ps[:6] + ch[k:: 5][:8] + triples[(gi * 31 + k * 7) % 997:: 997][:6],
                          "cevs": [[[p[0]], [p[1]]] for p in ps[6:]] + [[[p[1]], [p[0]]] for p in ps[6:9]]})
    # a domain tagged with the target's own population (an experiment in the target): policy on a node without
    # bidirected edges, graph unchanged, together with one ordinary domain
    for gi, gr in enumerate(graphs):
        free = [v for v in gr["n"] if not any(v in e for e in gr["b"])]
        if not free:
            continue
        zv = free[gi % len(free)]
        others = [v for v in gr["n"] if v != zv]
        cd = [{"s": [], "z": [zv], "star": True}, {"s": [others[gi % 2]], "z": []}]
        ps = pairs[(gi * 17) % 89:: 89][:10]
        items.append({"g": gr, "gid": f"A3-{gi}-star", "cdoms": cd, "evs": singles[gi % 2:: 2] + ps[:5],
                      "cevs": [[[p[0]], [p[1]]] for p in ps[5:]]})
    shards = [items[i::NCPU] for i in range(NCPU)]
    jobs = []
    for i, sh in enumerate(shards):
        if sh:
            f = wd / f"c09-in{i}.json"
            f.write_text(json.dumps(sh))
            jobs.append((f, wd / f"c09-out{i}.json"))

    def one(job):
        drive("drive_ctft.py", [str(job[0]), str(job[1])])
        return json.loads(job[1].read_text())

    groups = [x for r in run_parallel(one, jobs) for x in r]
    for gr in groups:
        for r in gr["recs"]:
            r["routine"] = r["k"] + json.dumps(gr["cdoms"], separators=(",", ":"))
    vs, st, by_id = cf.judge(wd, groups, seeds=(1, 2))
    return vs, st, by_id, g


def run(tier: str) -> int:
    out = Outcome(PID, tier)
    wd = workdir(PID)
    mc = cf_mc(wd)[0]
    vs, st, by_id, g = records(wd, tier)
    cf.report(out, vs, by_id)
    cov = cf.coverage(vs, by_id, st, g,
                      "one record = unconditional_cft / conditional_cft on a 3-node target ADMG, 1-2 domains (selection-node set, "
                      "policy-variable set; fixed deterministic choice among the 27 disjoint pairs) and a TLC-generated event "
                      "(single atoms, two-atom events, outcome|condition pairs); the returned expression over the domains' "
                      "distributions, read with the returned event, is evaluated by TLC in the multi-domain functional family and "
                      "compared with the target probability; non-trivial = distinct answered input on a graph with a bidirected edge",
                      {"design_mc": [mc]})
    cov["states"] += mc["distinct"]
    cov["transitions"] += mc["generated"]
    return out.finish("model_checking", cov, [
        "policies have no parents (the edges into a policy variable are removed in its domain)",
        "fixed family (independent of VERIF_SEED); known findings are listed by (input, semantic signature)"])

"""Maintenance script, run BY HAND after triage (never by a check): rebuild known_findings_<pid>.json for a property
whose implementation has unrepaired defects, from the failures of both tiers' fixed input families.

usage: python3 harness/mk_known_cf.py C07|C08|C09|C19
"""
import importlib
import json
import os
import sys

sys.path.insert(0, os.path.dirname(os.path.abspath(__file__)))
import cfcommon as cf  # noqa: E402
from common import ROOT, workdir  # noqa: E402

pid = sys.argv[1]
mod = importlib.import_module(f"check_{pid.lower()}")
wd = workdir(f"mk-{pid}")
keys = {}
classes = {}
for tier in ("quick", "thorough"):
    vs, st, by_id, g = mod.records(wd, tier)[:4]
    for rid, v in vs.items():
        if v["ok"] or v["clause"] == "vocabulary":
            continue
        gg, r = by_id[rid]
        k, s = cf.fail_key(gg, r), cf.fail_sig(r, v)
        keys.setdefault(k, [])
        if s not in keys[k]:
            keys[k].append(s)
        classes[v["clause"]] = classes.get(v["clause"], 0) + 1
    print(tier, "records", len(vs), "failing inputs so far", len(keys), classes)
json.dump({"comment": f"(input -> failure signatures) of the known findings of {pid}; written by harness/mk_known_cf.py after triage, "
                      "never at check time", "keys": dict(sorted(keys.items()))},
          open(ROOT / f"known_findings_{pid}.json", "w"), indent=0)

"""C08: IDC* estimands equal the conditional counterfactual probability.

Inputs: TLC-generated conjunctions of 2-3 atoms over 3-node ADMGs, split into (outcomes, conditions) in every way with a
non-empty condition.  TLC validates: value = P(outcomes and conditions)/P(conditions) where the condition is possible;
Zero only for impossible joint events; an impossible condition must be rejected (ValueError), never answered; a possible
condition must not be rejected; Unidentifiable accepted.  Fixed deterministic family; known findings by (input, signature).
"""

from __future__ import annotations

import cfcommon as cf
from check_c18 import cf_mc
from common import NCPU, MachineryError, Outcome, cached, tlc, tlc_ok, tlc_violation, workdir

PID = "C08"
IDCS_INVS = ["Sound", "Vocab", "UndefOnlyIfImpossible"]


def idcstar_mc(wd, slice_=60):
    """Design level: the reference IDC* (IDStar.tla: lines 1-5 with the counterfactual-graph rule 2, sound partial version)
    answers only with terms that denote P(outcomes | conditions) in family F, and says 'undefined' only for impossible
    conditions, on every ordered 3-node ADMG x (both splits of a slice of the two-atom events)."""
    def go():
        cfg = wd / "IDCStarMachine.cfg"
        cfg.write_text(f'SPECIFICATION Spec\nCONSTANTS\n  Family = "A3o"\n  RndN = 5\n  RndK = 4\n  Seeds = {{1, 2}}\n  MaxAtoms = 2\n'
                       f'  Slice = {slice_}\n  Check = TRUE\n  Mode = "cstar"\n' + "".join(f"INVARIANT {i}\n" for i in IDCS_INVS)
                       + "CHECK_DEADLOCK FALSE\n")
        r = tlc("IDStarMachine.tla", str(cfg), workers=NCPU, meta=wd / "idcsmc", xmx="6g", timeout=5400)
        v = tlc_violation(r)
        if v:
            raise MachineryError(f"IDStarMachine (cstar): {v} violated\n" + r["out"][-2500:])
        tlc_ok(r, "IDStarMachine cstar")
        return {"family": "A3o", "mode": "cstar", "pair_slice": slice_, "generated": r["generated"], "distinct": r["distinct"],
                "invariants": IDCS_INVS}
    return cached(f"idcs-mc-{slice_}", go, module="IDStarMachine")


def warm():
    wd = workdir("c08-warm")
    cf.gen(wd, "A3", 3, 3, 2, False)
    idcstar_mc(wd)


def splits(ev):
    n = len(ev)
    for mask in range(1, 2 ** n - 1):
        yield [ev[i] for i in range(n) if not mask >> i & 1], [ev[i] for i in range(n) if mask >> i & 1]


def records(wd, tier, diag=False):
    items, g = cf.event_family(wd, tier, pairs_step=42, with_triples=True)
    for gi, it in enumerate(items):
        pairs = [e for e in it["evs"] if len(e) == 2]
        trip = it["triples"][:: 2 if tier == "quick" else 1]
        evs = []
        for e in pairs:
            evs += list(splits(e))
        for k, e in enumerate(trip):
            sp = list(splits(e))
            evs += [sp[(gi + k) % 6], sp[(gi + k + 3) % 6]]
        it["evs"] = evs
    groups = cf.run_y0(wd, "cstar", items, "c08")
    vs, st, by_id = cf.judge(wd, groups, seeds=(1, 2))
    if diag:
        # the reference cross-tab is costly (IDCStarRef per record): a fixed eighth of the records, diagnostic only
        sub = [dict(gr, recs=[r for k, r in enumerate(gr["recs"]) if (gi + k) % 8 == 0]) for gi, gr in enumerate(groups)]
        dvs, _, _ = cf.judge(wd, sub, seeds=(1,), tag="tvdiag", diag=True)
        for i, v in dvs.items():
            if i in vs:
                vs[i] = dict(vs[i], ref=v.get("ref"))
    return vs, st, by_id, g, groups


def run(tier: str) -> int:
    out = Outcome(PID, tier)
    wd = workdir(PID)
    mc = cf_mc(wd)[0]
    mc2 = idcstar_mc(wd)[0]
    vs, st, by_id, g, groups = records(wd, tier, diag=tier == "thorough")   # the reference cross-tab is costly: thorough only
    cf.report(out, vs, by_id, skip={"vocabulary"})
    hist = cf.report_history(out, groups)
    xtab = {}
    for i, v in vs.items():   # diagnostic: where y0 is wrong, does the reference IDC* answer or refuse?
        if v.get("ref") not in (None, "not-computed"):
            k = f"y0:{v['clause']}/ref:{v.get('ref')}"
            xtab[k] = xtab.get(k, 0) + 1
    cov = cf.coverage(vs, by_id, st, g,
                      "one record = idc_star(G, outcomes, conditions) for a split of a TLC-generated 2- or 3-atom conjunction over a "
                      "3-node ADMG (fixed deterministic family); TLC evaluates the returned expression (read with the events' values) "
                      "and P(outcomes and conditions)/P(conditions) in functional models with shared noise on all base assignments; "
                      "non-trivial = distinct input with an answer on a graph with a bidirected edge",
                      {"design_mc": [mc, mc2], "y0_outcome_vs_reference_idcstar": xtab})
    cov.update(hist)
    cov["states"] += mc["distinct"] + mc2["distinct"]
    cov["transitions"] += mc["generated"] + mc2["generated"]
    return out.finish("model_checking", cov, [
        "fixed family (independent of VERIF_SEED); known findings are listed by (input, semantic signature)",
        "family F as in C07; points where P(conditions) = 0 are skipped"])

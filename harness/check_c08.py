"""C08: IDC* estimands equal the conditional counterfactual probability.

Inputs: TLC-generated conjunctions of 2-3 atoms over 3-node ADMGs, split into (outcomes, conditions) in every way with a
non-empty condition.  TLC validates: value = P(outcomes and conditions)/P(conditions) where the condition is possible;
Zero only for impossible joint events; an impossible condition must be rejected (ValueError), never answered; a possible
condition must not be rejected; Unidentifiable accepted.  Fixed deterministic family; known findings by (input, signature).
"""

from __future__ import annotations

import cfcommon as cf
from check_c18 import cf_mc
from common import Outcome, workdir

PID = "C08"


def warm():
    wd = workdir("c08-warm")
    cf.gen(wd, "A3", 3, 3, 2, False)


def splits(ev):
    n = len(ev)
    for mask in range(1, 2 ** n - 1):
        yield [ev[i] for i in range(n) if not mask >> i & 1], [ev[i] for i in range(n) if mask >> i & 1]


def records(wd, tier):
    items, g = cf.event_family(wd, tier, pairs_step=42, with_triples=True)
    for gi, it in enumerate(items):
        pairs = [e for e in it["evs"] if len(e) == 2]
        trip = it["triples"][:: 2 if tier == "quick" else 1]
        evs = []
        for e in pairs:
            evs += list(splits(e))
        for k, e in enumerate(trip):
            sp = list(splits(e))
            evs += [sp[(gi + k) % 6], sp[(gi + k + 3) % 6]]
        it["evs"] = evs
    groups = cf.run_y0(wd, "cstar", items, "c08")
    vs, st, by_id = cf.judge(wd, groups, seeds=(1, 2))
    return vs, st, by_id, g


def run(tier: str) -> int:
    out = Outcome(PID, tier)
    wd = workdir(PID)
    mc = cf_mc(wd)[0]
    vs, st, by_id, g = records(wd, tier)
    cf.report(out, vs, by_id, skip={"vocabulary"})
    cov = cf.coverage(vs, by_id, st, g,
                      "one record = idc_star(G, outcomes, conditions) for a split of a TLC-generated 2- or 3-atom conjunction over a "
                      "3-node ADMG (fixed deterministic family); TLC evaluates the returned expression (read with the events' values) "
                      "and P(outcomes and conditions)/P(conditions) in functional models with shared noise on all base assignments; "
                      "non-trivial = distinct input with an answer on a graph with a bidirected edge",
                      {"design_mc": [mc]})
    cov["states"] += mc["distinct"]
    cov["transitions"] += mc["generated"]
    return out.finish("model_checking", cov, [
        "fixed family (independent of VERIF_SEED); known findings are listed by (input, semantic signature)",
        "family F as in C07; points where P(conditions) = 0 are skipped"])

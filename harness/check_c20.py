"""C20: sigma-separation agrees with d-separation on ADMGs; symmetric and adjacency-respecting everywhere."""

from __future__ import annotations

import json

import examples as ex
import sepcommon as sc
from common import Outcome, seed, workdir

PID = "C20"


def warm():
    sc.warm_all()


def run(tier: str) -> int:
    out = Outcome(PID, tier)
    wd = workdir(PID)
    fams = ["A3", "A4o", "M3", "C5", "D5"]
    mcs = [sc.mc(wd, f)[0] for f in fams]
    gens = [sc.tables(wd, f)[0] for f in fams]
    recs = [r for g in gens for r in g["recs"]]
    r5q = sc.tables(wd, "RND", rnd_seed=910 + seed(), rndn=5, rndk=6)[0]
    recs += r5q["recs"]
    extra = {"generated": r5q["generated"], "distinct": r5q["distinct"]}
    if tier == "thorough":
        base = extra
        extra = sc.tables(wd, "M4c")[0]
        recs += extra["recs"]
        r5 = sc.tables(wd, "RND", rnd_seed=900 + seed(), rndn=5, rndk=30)[0]
        recs += r5["recs"]
        extra = {"generated": base["generated"] + extra["generated"] + r5["generated"],
                 "distinct": base["distinct"] + extra["distinct"] + r5["distinct"]}
    exf = ex.sep_tables(wd)   # the repository's example catalogue (5-8 nodes), tables by SepFile.tla
    recs += exf["recs"]
    stats, fails = sc.replay(wd, "sigma", recs, 3)
    for f in fails:
        key = json.dumps({"g": f["g"], "a": f["a"], "b": f["b"], "c": f["c"]}, sort_keys=True)
        sig = f["clause"] + (":" + f["exc"] if "exc" in f else "") + (f":ab={f['ab']}" if "ab" in f else "")
        if f["clause"] == "verdict" and f.get("dev"):
            # impl = SigmaY0Sep (the named deviation of Separation.tla) # ideal: attributed by call site
            key, sig = "deviation:SigmaY0Sep", "impl=SigmaY0Sep#SigmaSep"
        out.fail(key, sig, f)
    cov = {
        "states": sum(m["distinct"] for m in mcs) + sum(g["distinct"] for g in gens) + extra["distinct"],
        "transitions": sum(m["generated"] for m in mcs) + sum(g["generated"] for g in gens) + extra["generated"],
        "traces_validated_against_impl": stats.get("calls", 0),
        "graphs": len(recs),
        "example_catalogue_graphs": exf["names"],
        "cyclic_graph_calls": stats.get("cyclic_calls", 0),
        "diagnostic_only_disagreements_with_SigmaSep_on_cyclic_graphs": stats.get("cyclic_diagnostic_disagreements", 0),
        "samples": [{"g": recs[7]["g"], "sig": recs[7]["sig"]}, {"g": recs[-1]["g"], "adj": recs[-1]["adj"]}],
        "exhaustive": True,
        "distinct_nontrivial": sum(1 for r in recs if r["g"]["b"] and r["g"]["d"]),
        "rule": "one record = mixed graph with TLC's tables (m-separation on ADMGs, adjacency, SigmaSep); every pair in both "
                "argument orders and every conditioning set is replayed; agreement clause on all ADMGs <= 4 nodes "
                "(topologically numbered), symmetry/adjacency clauses additionally on all 512 mixed graphs with 3 nodes "
                "(cycles included); non-trivial = both edge kinds present",
    }
    return out.finish("model_checking", cov, [
        "expected verdicts on ADMGs: MSepPath, proved equal to SigmaSep and canonical-DAG d-separation by TLC (SepMachine MC)",
        "agreement with the spec's SigmaSep on cyclic graphs is reported as a diagnostic only (the statement does not demand it)"])

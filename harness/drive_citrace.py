"""C15 driver (trace direction): record what the real generator d_separations yields, in order.

usage: drive_citrace.py <in.json> <out.json>
in: list of {"id", "g": {n,d,b}, "ks": [k...]} (k = -1: no limit); out: list of traces {"id", "g", "k", "events"} where an
event is [a, b, [conditions]] with a < b.  Nothing is judged here: CITrace.tla decides whether the sequence is a behaviour
of CIMachine.tla.
"""

from __future__ import annotations

import json
import sys

from ser import build_graph, exc_class, num


def main() -> None:
    from y0.algorithm.conditional_independencies import d_separations

    out = []
    for item in json.load(open(sys.argv[1])):
        for oi, k in enumerate(item["ks"]):
            graph = build_graph(item["g"], oi % 3)
            tid = f"{item['id']}:k{k}"
            try:
                evs = []
                for j in d_separations(graph, max_conditions=None if k < 0 else k):
                    a, b = num(j.left), num(j.right)
                    evs.append([min(a, b), max(a, b), sorted(num(c) for c in j.conditions)])
                out.append({"id": tid, "g": item["g"], "k": k, "events": evs})
            except Exception as exc:  # noqa: BLE001
                out.append({"id": tid, "g": item["g"], "k": k, "events": [], "exc": exc_class(exc), "msg": str(exc)[:160]})
    json.dump(out, open(sys.argv[2], "w"))


if __name__ == "__main__":
    main()

"""Replay a violation file: print the recorded input, outcome and TLC verdict, and re-run the call against /repo.

usage: python3 harness/replay.py <replay/Cnn/violation_k.json>
"""
import json
import os
import subprocess
import sys

ROOT = os.path.dirname(os.path.dirname(os.path.abspath(__file__)))
f = json.load(open(sys.argv[1]))
print(json.dumps(f, indent=1)[:6000])
key = f.get("key")
try:
    k = json.loads(key)
except Exception:  # noqa: BLE001
    k = None
if isinstance(k, dict) and "g" in k and "x" in k:
    code = f"""
import json, sys
sys.path.insert(0, {os.path.join(ROOT, 'harness')!r})
from ser import build_graph, var
from y0.algorithm.identify import identify_outcomes
k = json.loads({key!r})
g = build_graph(k['g'])
try:
    print('re-run:', identify_outcomes(g, {{var(i) for i in k['x']}}, {{var(i) for i in k['y']}}, {{var(i) for i in k['z']}} if k.get('z') else None))
except Exception as e:
    print('re-run raised', type(e).__name__, e)
"""
    env = dict(os.environ, PYTHONPATH="/repo/src")
    subprocess.run(["/venv/bin/python", "-c", code], env=env, check=False)

"""Line-level trace validation of the real ID algorithm against IDLines.tla (diagnostic, non-gating)."""

from __future__ import annotations

import json
import re

from common import NCPU, NSHARDS, shard_hashseed, MachineryError, drive, run_parallel, tlc


def validate(wd, items: list[dict], tag="idl") -> dict:
    shards = [items[i::NSHARDS] for i in range(NSHARDS)]
    jobs = []
    for i, sh in enumerate(shards):
        if sh:
            f = wd / f"{tag}-in{i}.json"
            f.write_text(json.dumps([{"g": it["g"], "gid": it["gid"], "qs": [q[:3] for q in it["qs"]]} for it in sh]))
            jobs.append((i, f, wd / f"{tag}-tr{i}.json"))
    cfg = wd / f"{tag}.cfg"
    cfg.write_text("SPECIFICATION Spec\nINVARIANT Report\nCHECK_DEADLOCK FALSE\n")

    def one(job):
        i, f, trf = job
        drive("drive_idtrace.py", [str(f), str(trf)], hashseed=shard_hashseed(i))
        traces = json.loads(trf.read_text())
        if not traces:
            return [], set(), {"generated": 0, "distinct": 0}, 0
        r = tlc("IDLines.tla", str(cfg), workers=1, env={"TRACE_FILE": str(trf)}, meta=wd / f"{tag}-meta{i}", xmx="2g", gcthreads=2)
        if "Model checking completed. No error has been found." not in r["out"]:
            raise MachineryError("IDLines failed:\n" + "\n".join(r["out"].splitlines()[-20:]))
        acc = set(re.findall(r'^<<"ACC", "([^"]+)">>', r["out"], flags=re.M))
        return [t["id"] for t in traces], acc, r, sum(len(t["evs"]) for t in traces)

    ids, acc, gen, dis, nev = [], set(), 0, 0, 0
    for tids, a, r, n in run_parallel(one, jobs):
        ids += tids
        acc |= a
        gen += r["generated"]
        dis += r["distinct"]
        nev += n
    rejected = sorted(set(ids) - acc)
    return {"traces": len(ids), "accepted": len(acc & set(ids)), "events": nev, "rejected_sample": rejected[:5],
            "generated": gen, "distinct": dis}

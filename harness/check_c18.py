"""C18: counterfactual-graph construction preserves the event's probability.

Sem.tla's functional model family F (shared exogenous noise, model-checked against the axioms of counterfactuals in
CFMachine.tla) gives every conjunction of counterfactual atoms its probability.  make_counterfactual_graph is run on
TLC-generated events; TLC validates that the relabelled event has the same probability on every base assignment of
generic F-models, that 'inconsistent' is reported only for impossible events, and that the returned graph is acyclic,
ancestral for the relabelled event and contains its variables.
"""

from __future__ import annotations

import random

import cfcommon as cf
from common import Outcome, cached, seed, tlc, tlc_ok, tlc_violation, MachineryError, NCPU, workdir

PID = "C18"
INVS = ["Normalised", "Effectiveness", "Composition", "Exclusion", "Compatible"]


def cf_mc(wd):
    def go():
        cfg = wd / "CFMachine.cfg"
        cfg.write_text('SPECIFICATION Spec\nCONSTANTS\n  Family = "A3"\n  RndN = 5\n  RndK = 4\n  Seeds = {1, 2}\n  Grows = TRUE\n'
                       + "".join(f"INVARIANT {i}\n" for i in INVS) + "PROPERTY GrowLocal\nCHECK_DEADLOCK FALSE\n")
        r = tlc("CFMachine.tla", str(cfg), workers=NCPU, meta=wd / "cfmc", xmx="6g")
        v = tlc_violation(r)
        if v:
            raise MachineryError(f"CFMachine: {v} violated\n" + r["out"][-2000:])
        tlc_ok(r, "CFMachine")
        return {"generated": r["generated"], "distinct": r["distinct"], "invariants": INVS, "action_properties": ["GrowLocal"], "family": "A3"}
    return cached("cf-mc-A3", go, module="CFMachine")


def warm():
    wd = workdir("c18-warm")
    cf_mc(wd)
    cf.gen(wd, "A3", 3, 2, 2, False)
    cf.gen(wd, "A3", 3, 3, 2, False)
    cf.gen(wd, "A3", 3, 1, 2, False, chains=True)
    cf.gen(wd, "A4o", 4, 2, 2, False)


def run(tier: str) -> int:
    out = Outcome(PID, tier)
    wd = workdir(PID)
    mc = cf_mc(wd)[0]
    items, g = cf.event_family(wd, tier, with_triples=True, clash=20 if tier == "quick" else 100)
    rng = random.Random(1800 + seed())
    chains = cf.gen(wd, "A3", 3, 1, 2, False, chains=True)[0]["chains"]
    for it in items:  # C18 holds on the fixed family: seeded three-atom events are added on top
        it["evs"] = it["evs"] + rng.sample(it["triples"], min(len(it["triples"]), 10 if tier == "quick" else 40))
        # a fixed slice of the three-world events with two clashing atoms on one variable (chains of Lemma-25 merges)
        it["evs"] = it["evs"] + [e for e in it.pop("clash") if e not in it["evs"]]
        # every merge-chain event of this graph (CF.tla MergeChainEvents: one variable in three worlds that differ in an
        # irrelevant subscript, atoms on two of the copies, a third atom in the remaining world)
        it["evs"] = it["evs"] + [e for e in chains[cf.gkey(it["g"])] if e not in it["evs"]]
    extra4 = {}
    if True:
        # C18 holds on the fixed family, so seeded 4-node inputs are added (sparser graphs keep family F tractable)
        g4 = cf.gen(wd, "A4o", 4, 2, 2, False)[0]
        pool = [g for g in g4["graphs"] if len(g["b"]) <= 3]
        s4 = [e for e in g4["events"] if len(e) == 1]
        p4 = [e for e in g4["events"] if len(e) == 2]
        ng, ne = (8, 16) if tier == "quick" else (120, 60)
        for k, gr in enumerate(rng.sample(pool, ng)):
            items.append({"g": gr, "gid": f"A4-{k}", "evs": rng.sample(s4, ne // 2) + rng.sample(p4, ne), "triples": []})
        extra4 = {"four_node_graphs": ng, "four_node_events_per_graph": ne + ne // 2}
    groups = cf.run_y0(wd, "cg", items, "c18")
    vs, st, by_id = cf.judge(wd, groups, seeds=(1, 2) if tier == "quick" else (1, 2, 3))
    cf.report(out, vs, by_id)
    hist = cf.report_history(out, groups)
    cov = cf.coverage(vs, by_id, st, g,
                      "one record = make_counterfactual_graph(G, event) for a TLC-generated conjunction of 1-3 atoms 'V under "
                      "<= 2 signed subscripts takes a signed value' over a 3-node ADMG (all single atoms, a graph-dependent "
                      "slice of all pairs, seeded triples, a fixed slice of the three-world triples with two clashing atoms on one "
                      "variable, every merge-chain event of the graph (MergeChainEvents in CF.tla)); TLC evaluates P(event) and P(relabelled event) in functional models "
                      "with shared noise on all 8 base assignments and checks acyclicity / ancestrality / membership on the "
                      "returned graph; non-trivial = distinct (graph, event) on a graph with a bidirected edge",
                      {"design_mc": [mc], **extra4})
    cov.update(hist)
    cov["states"] += mc["distinct"]
    cov["transitions"] += mc["generated"]
    return out.finish("model_checking", cov, [
        "family F: binary variables, noise with 3 values per node, one binary latent per bidirected edge, generic weights in GF(32749)",
        "3-node graphs only; atoms with reflexive subscripts (Y_y) are not in this family"])

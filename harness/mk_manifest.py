"""Regenerate /verif/MANIFEST.json from the table below (keeps it schema-valid at all times)."""
import json, os, sys
ROOT = os.path.dirname(os.path.dirname(os.path.abspath(__file__)))
sys.path.insert(0, os.path.join(ROOT, "harness"))
from manifest_table import CHECKS, NOT_YET  # noqa: E402

props = [json.loads(l) for l in open(os.path.join(ROOT, "properties.jsonl"))]
ids = [p["id"] for p in props]
checks = []
for pid in ids:
    if pid not in CHECKS:
        continue
    c = CHECKS[pid]
    checks.append({
        "property_id": pid,
        "quick_cmd": f"python3 harness/run_check.py {pid} --tier quick",
        "thorough_cmd": f"python3 harness/run_check.py {pid} --tier thorough",
        "evidence_file": f"/verif/evidence/{pid}.json",
        "replay_cmd_template": "python3 harness/replay.py {path}",
        "engine": "tlc",
        "level_claimed": {"category": "model_checking", "text": c["text"], "design_ref": c["ref"]},
        "level_note": c["note"],
        "technique": c["technique"],
    })
na = [{"property_id": pid, "reason": NOT_YET.get(pid, "check not built yet in this round; planned per DESIGN.md section 4")}
      for pid in ids if pid not in CHECKS]
m = {
    "version": 1,
    "setup_cmd": "sh harness/setup.sh",
    "hooks": {
        "guard": "Y0_VERIF",
        "enable": "checks set Y0_VERIF=1 and PYTHONPATH=/repo/src before importing y0 (harness/common.py drive()); every property is decided at the public call's return (sequential library); the only source hook, y0._verif.trace in identify(), feeds the line-level trace validation against spec/IDLines.tla",
        "baseline_off_cmd": "python3 harness/baseline_off.py",
        "source_commits": ["489c4b6"],
        "add_only": True,
    },
    "engines": [{
        "name": "tlc", "path": "/verif/spec",
        "serves_properties": [c["property_id"] for c in checks],
        "kind_free_text": "explicit TLA+ specification (spec/*.tla) checked with TLC 1.8: design-level model checking, TLC-generated behaviours replayed into y0, y0 outputs validated as traces by TLC",
    }],
    "checks": checks,
    "not_applicable": na,
    "notes": "All verdicts come from the TLA+ text under spec/ (31 modules; DESIGN.md section 14.1 lists them). Checks: python3 harness/run_check.py <id> --tier quick|thorough; exit 0 = held on everything explored (KNOWN-FINDING lines for listed findings), exit 1 + VIOLATION lines otherwise, exit 2 = machinery failure. known_findings.json and known_findings_C07/C08/C09/C19.json are committed and never written by a check (harness/mk_known_cf.py regenerates the tables by hand). seeded/ holds 110 confirmed breaking changes (six independent rounds of sub-agents) with what detects them; harness/seedrun2.sh runs the quick checks against one of them on a scratch worktree. harness/selftest.py demonstrates the binding (corrupted line traces, estimands, generator traces and query behaviours are rejected).",
}
json.dump(m, open(os.path.join(ROOT, "MANIFEST.json"), "w"), indent=1)
print("checks:", [c["property_id"] for c in checks], "not_applicable:", len(na))

"""Driver for C11 (presentation permutations): canonicalise every TLC-generated presentation.

usage: drive_perm.py <in.json> <out.json>;  in: list of {"id", "base", "e"}; out: {id: {ord: {"e", "str"} | {"exc"}}}
Presentations are built with the raw constructors so that factor order, nesting and variable order survive.
"""

from __future__ import annotations

import json
import sys

from ser import de_expr, exc_class, pop_num, ser_expr, var

ORDERS = {"asc": [1, 2, 3, 4], "mixed": [3, 1, 4, 2]}


def main():
    from y0.mutate import canonicalize

    out = {}
    for item in json.load(open(sys.argv[1])):
        obj = de_expr(item["e"])
        res = {}
        for name, order in ORDERS.items():
            try:
                c = canonicalize(obj, [var(i) for i in order])
                c2 = canonicalize(c, [var(i) for i in order])
                res[name] = {"e": ser_expr(c, pop=pop_num), "str": str(c), "idem": c2 == c and str(c2) == str(c),
                             "hash_eq": hash(c2) == hash(c)}
            except Exception as exc:  # noqa: BLE001
                res[name] = {"exc": exc_class(exc), "msg": str(exc)[:160]}
        out[item["id"]] = res
    json.dump(out, open(sys.argv[2], "w"))


main()

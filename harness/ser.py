"""Serialisation between the integer world of the TLA+ spec and y0 objects.

Runs under /venv/bin/python with PYTHONPATH=/repo/src (set by common.drive).
"""

from __future__ import annotations

import random
from typing import Any

from y0.dsl import (
    CounterfactualVariable,
    Expression,
    Fraction,
    Intervention,
    One,
    PopulationProbability,
    Probability,
    Product,
    QFactor,
    Sum,
    Variable,
    Zero,
)
from y0.graph import NxMixedGraph

PREFIX = "V"
# naming schemes: node i of the spec is V<i> by default; "latent-like" names it u_<i-1>, the names the library itself
# gives to the latent parents of bidirected edges (y0.graph.DEFULT_PREFIX), so that an observed node may look like one
# "permuted": node i is V<perm(i)> for a seeded permutation of 1..9, so that the alphabetical order of the names is
# unrelated to the numbering (and hence to the topological numbering of the ordered families)
_NAMING = {"scheme": "V", "perm": None, "inv": None}


def set_naming(scheme: str, seed: int = 0) -> None:
    if scheme not in ("V", "latent-like", "permuted", "indexed"):
        raise ValueError(scheme)
    _NAMING["scheme"] = scheme
    if scheme == "permuted":
        ids = list(range(1, 10))
        sh = ids[:]
        random.Random(seed * 7919 + 13).shuffle(sh)
        _NAMING["perm"] = dict(zip(ids, sh))
        _NAMING["inv"] = dict(zip(sh, ids))


def _name(i: int) -> str:
    if _NAMING["scheme"] == "latent-like":
        return f"u_{i - 1}"
    if _NAMING["scheme"] == "indexed":   # A_1, B_2, C_3, D4, E_5, ...: the parser's indexed single-letter names
        letter = chr(64 + i)
        return f"{letter}{i}" if i % 4 == 0 else f"{letter}_{i}"
    if _NAMING["scheme"] == "permuted" and i in _NAMING["perm"]:
        return f"{PREFIX}{_NAMING['perm'][i]}"
    return f"{PREFIX}{i}"


def var(i: int) -> Variable:
    return Variable(_name(i))


def num(v: Any) -> int:
    name = v.name if isinstance(v, Variable) else str(v)
    if _NAMING["scheme"] == "latent-like":
        if not name.startswith("u_") or not name[2:].isdigit():
            raise KeyError(name)
        return int(name[2:]) + 1
    if _NAMING["scheme"] == "indexed":
        i = ord(name[0]) - 64
        if not 1 <= i <= 26 or name != _name(i):
            raise KeyError(name)
        return i
    if not name.startswith(PREFIX) or not name[len(PREFIX) :].isdigit():
        raise KeyError(name)
    k = int(name[len(PREFIX) :])
    if _NAMING["scheme"] == "permuted" and k in _NAMING["inv"]:
        return _NAMING["inv"][k]
    return k


def build_graph(g: dict, order: int = 0) -> NxMixedGraph:
    """Build the graph under a given insertion order (0 = sorted, k>0 = seeded shuffle)."""
    nodes = list(g["n"])
    d = [tuple(e) for e in g["d"]]
    b = [tuple(e) for e in g["b"]]
    if order:
        rng = random.Random(order * 7919 + len(nodes))
        rng.shuffle(nodes)
        rng.shuffle(d)
        rng.shuffle(b)
        b = [(v, u) if rng.random() < 0.5 else (u, v) for u, v in b]
    # order 2: edges first (nodes= still passed so that isolated nodes exist)
    return NxMixedGraph.from_edges(
        nodes=[var(i) for i in nodes],
        directed=[(var(u), var(v)) for u, v in d],
        undirected=[(var(u), var(v)) for u, v in b],
    )


def project(graph: NxMixedGraph, name=num) -> dict:
    """Project a mixed graph to the abstract state of the spec; also report internal mismatch."""
    dn = {name(x) for x in graph.directed.nodes()}
    un = {name(x) for x in graph.undirected.nodes()}
    return {
        "n": sorted({name(x) for x in graph.nodes()}),
        "d": sorted([name(u), name(v)] for u, v in graph.directed.edges()),
        "b": sorted(sorted([name(u), name(v)]) for u, v in graph.undirected.edges()),
        "dn": sorted(dn),
        "un": sorted(un),
    }


def norm_graph(g: dict) -> dict:
    return {
        "n": sorted(g["n"]),
        "d": sorted(list(e) for e in g["d"]),
        "b": sorted(sorted(e) for e in g["b"]),
    }


# ----------------------------------------------------------------------------- expressions


def _star(v: Variable) -> int:
    return 0 if v.star is None else (2 if v.star else 1)


def ser_var(v: Variable, name=num) -> dict:
    iv = []
    if isinstance(v, CounterfactualVariable):
        iv = sorted(([name(i), _star(i)] for i in v.interventions))
    return {"n": name(v), "s": _star(v), "iv": iv}


def ser_expr(e: Expression, name=num, pop=None) -> dict:
    """Serialise an expression tree. `pop` maps population names to integers."""
    if isinstance(e, PopulationProbability):
        if pop is None:
            raise KeyError("population")
        return {
            "t": "P",
            "ch": [ser_var(v, name) for v in e.children],
            "pa": [ser_var(v, name) for v in e.parents],
            "pop": pop(e.population),
        }
    if isinstance(e, Probability):
        return {
            "t": "P",
            "ch": [ser_var(v, name) for v in e.children],
            "pa": [ser_var(v, name) for v in e.parents],
            "pop": 0,
        }
    if isinstance(e, Product):
        return {"t": "M", "es": [ser_expr(x, name, pop) for x in e.expressions]}
    if isinstance(e, Fraction):
        return {"t": "F", "a": ser_expr(e.numerator, name, pop), "b": ser_expr(e.denominator, name, pop)}
    if isinstance(e, Sum):
        return {"t": "S", "r": sorted(name(v) for v in e.ranges), "e": ser_expr(e.expression, name, pop)}
    if isinstance(e, One):
        return {"t": "1"}
    if isinstance(e, Zero):
        return {"t": "0"}
    if isinstance(e, QFactor):
        return {
            "t": "Q",
            "dom": sorted(name(v) for v in e.domain),
            "cod": sorted(name(v) for v in e.codomain),
        }
    raise TypeError(f"cannot serialise {type(e)}: {e!r}")


def exc_class(exc: BaseException) -> str:
    return type(exc).__name__


# ----------------------------------------------------------------------------- terms -> y0 objects (raw constructors)


def pop_var(k: int):
    from y0.dsl import Population

    return Population(f"π{k}")


def pop_num(p) -> int:
    name = p.name
    if name.startswith("π") and name[1:].isdigit():
        return int(name[1:])
    if name == "pi*":
        return 0
    raise KeyError(name)


def de_var(v: dict) -> Variable:
    """Build a variable with the public operators (+X, -X, Y @ X), as a user of the DSL would."""
    x = Variable(_name(v["n"]))
    if v["s"] == 1:
        x = -x
    elif v["s"] == 2:
        x = +x
    if v["iv"]:
        ivs = [+Variable(_name(i[0])) if i[1] == 2 else -Variable(_name(i[0])) for i in v["iv"]]
        star = x.star
        x = Variable(_name(v["n"])) @ ivs
        if star is not None:
            x = +x if star else -x
    return x


def de_expr(t: dict) -> Expression:
    """Build the y0 object for a term with the *raw* constructors (no safe()/operator normalisation)."""
    from y0.dsl import Distribution

    k = t["t"]
    if k == "P":
        dist = Distribution(children=tuple(de_var(v) for v in t["ch"]), parents=tuple(de_var(v) for v in t["pa"]))
        if t.get("pop", 0):
            return PopulationProbability(population=pop_var(t["pop"]), distribution=dist)
        return Probability(dist)
    if k == "M":
        return Product(tuple(de_expr(x) for x in t["es"]))
    if k == "F":
        return Fraction(de_expr(t["a"]), de_expr(t["b"]))
    if k == "S":
        return Sum(expression=de_expr(t["e"]), ranges=frozenset(var(i) for i in t["r"]))
    if k == "1":
        return One()
    if k == "0":
        return Zero()
    if k == "Q":
        return QFactor(domain=frozenset(var(i) for i in t["dom"]), codomain=frozenset(var(i) for i in t["cod"]))
    raise TypeError(k)

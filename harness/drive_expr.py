"""Driver for C10-C13: replay TLC-generated math terms (ExprCalc.tla) through the real DSL.

usage: drive_expr.py <terms.json> <out.json>
terms: list of {"id", "m"}; out: {"recs": [...], "stats": {...}}.  For the root operation of every term one
record is logged with the serialised object y0 built (kinds calc / canon / pp / same); nothing is evaluated here.
"""

from __future__ import annotations

import json
import sys
import warnings

import ser as ser_mod
from ser import de_expr, exc_class, pop_num, ser_expr, var

warnings.simplefilter("ignore")


class NotApplicable(Exception):
    pass


def ser(e):
    return ser_expr(e, pop=pop_num)


SPELL = {"on": False}


def spelled(p):
    """The atom built through the public builder and operator chains, as a user may write it: children joined with &
    from the last to the first, the last condition attached with |, the remaining ones as one joint distribution with a
    second | (Python reads  a | b | c & d  as  (a | b) | (c & d));  P(...) / PP[pop](...) normalise the order."""
    from y0.dsl import PP, P
    from ser import de_var, pop_var

    ch = [de_var(v) for v in p["ch"]]
    pa = [de_var(v) for v in p["pa"]]
    d = ch[-1]
    for c in reversed(ch[:-1]):
        d = d & c
    if pa:
        d = d | pa[-1]
        rest = pa[:-1]
        if len(rest) == 1:
            d = d | rest[0]
        elif rest:
            j = rest[-1]
            for c in reversed(rest[:-1]):
                j = j & c
            d = d | j
    return PP[pop_var(p["pop"])](d) if p.get("pop", 0) else P(d)


def build(x):
    """Build the y0 object of a math term bottom-up with the public operators."""
    from y0.dsl import Fraction, One, Probability, Sum, Zero
    from y0.mutate import (bayes_expand, canonicalize, chain_expand, fraction_expand)
    from y0.mutate.contract import contract, recursive_contract
    from y0.parser import parse_y0

    op = x["op"]
    if op == "atom":
        return spelled(x["p"]) if SPELL["on"] and x["p"]["t"] == "P" else de_expr(x["p"])
    if op == "one":
        return One()
    if op == "zero":
        return Zero()
    a = build(x["a"])
    if op == "mul":
        return a * build(x["b"])
    if op == "div":
        return a / build(x["b"])
    if op == "rdiv":
        return Fraction(a, build(x["b"]))
    if op == "rmul":
        from y0.dsl import Product
        return Product((a, build(x["b"])))
    if op == "marg":
        return a.marginalize([var(i) for i in x["r"]])
    if op == "cond":
        return a.conditional([var(i) for i in x["r"]])
    if op == "nmarg":
        return a.normalize_marginalize([var(i) for i in x["r"]])
    if op == "fsimp":
        if not isinstance(a, Fraction):
            raise NotApplicable
        return a.simplify()
    if op == "ssimp":
        if not isinstance(a, Sum):
            raise NotApplicable
        return a.simplify()
    if op == "contract":
        return contract(a)
    if op == "rcontract":
        return recursive_contract(a)
    if op == "canon":
        return canonicalize(a, [var(i) for i in x["ord"]])
    if op == "pp":
        return parse_y0(a.to_y0())
    if op in ("chain", "fexp", "bexp"):
        if not isinstance(a, Probability):
            raise NotApplicable
        if op == "chain":
            # the ordering is given over the atom's own variable objects, arranged by the generated name order
            pos = {ser_mod._name(n): k for k, n in enumerate(x["ord"])}
            used = {v.name for v in a.children + a.parents}
            # a global ordering: the atom's own variable objects plus the names that do not occur in it
            extra = tuple(var(n) for n in x["ord"] if ser_mod._name(n) not in used)
            order = sorted(a.children + a.parents + extra, key=lambda v: pos[v.name])
            return chain_expand(a, reorder=x["reorder"], ordering=order if x["reorder"] else None)
        return fraction_expand(a) if op == "fexp" else bayes_expand(a)
    raise TypeError(op)


def out_of(fn):
    from y0.dsl import Expression

    try:
        e = fn()
    except NotApplicable:
        raise
    except Exception as exc:  # noqa: BLE001
        return None, {"k": "exc", "exc": exc_class(exc), "msg": str(exc)[:160]}
    if not isinstance(e, Expression):
        return None, {"k": "expr", "unser": f"not an Expression: {type(e).__name__}", "str": repr(e)[:200]}
    try:
        return e, {"k": "expr", "e": ser(e), "str": str(e)[:300]}
    except Exception as exc:  # noqa: BLE001
        return e, {"k": "expr", "unser": f"{exc_class(exc)}: {exc}"[:160], "str": str(e)[:300]}


def main():
    from y0.mutate import canonicalize
    from y0.parser import parse_y0

    recs, stats = [], {"na": 0, "arg_failed": 0}
    for item in json.load(open(sys.argv[1])):
        x, rid = item["m"], item["id"]
        op = x["op"]
        if op in ("atom", "one", "zero"):
            continue
        try:
            a = build(x["a"])
            if "b" in x:
                build(x["b"])
        except NotApplicable:
            stats["na"] += 1
            continue
        except Exception:  # noqa: BLE001  (an argument could not be built: its own record reports that)
            stats["arg_failed"] += 1
            continue
        try:
            obj, out = out_of(lambda: build(x))
        except NotApplicable:
            stats["na"] += 1
            continue
        if op == "canon":
            try:
                pre = ser(a)
            except Exception:  # noqa: BLE001
                stats["arg_failed"] += 1
                continue
            recs.append({"id": rid, "k": "canon", "pre": pre, "ord": x["ord"], "out": out, "pre_str": str(a)[:300]})
            if obj is not None and "e" in out:
                order = [var(i) for i in x["ord"]]
                again, out2 = out_of(lambda: canonicalize(obj, order))
                if again is not None and "e" in out2:
                    recs.append({"id": rid + "#idem", "k": "same", "a": out["e"], "b": out2["e"],
                                 "eq": again == obj, "str": str(again) == str(obj), "a_str": str(obj)[:300],
                                 "b_str": str(again)[:300]})
                else:
                    recs.append({"id": rid + "#idem", "k": "same", "a": out["e"], "b": {"t": "exc"}, "eq": False,
                                 "str": False, "a_str": str(obj)[:300], "b_str": json.dumps(out2)[:300]})
        elif op == "pp":
            try:
                pre = ser(a)
            except Exception:  # noqa: BLE001
                stats["arg_failed"] += 1
                continue
            if obj is not None and "e" in out:
                out["same_obj"] = obj == a
                out["same_str"] = obj.to_y0() == a.to_y0()
            def has_raw(t):
                return isinstance(t, dict) and (t.get("op") in ("rmul", "rdiv") or any(has_raw(t.get(k)) for k in ("a", "b")))
            recs.append({"id": rid, "k": "pp", "a": pre, "out": out, "text": a.to_y0()[:300], "raw": has_raw(x)})
            # the same round trip with the parser's indexed single-letter names (A_1, B_2, C_3, D4)
            ser_mod.set_naming("indexed")
            try:
                a2 = build(x["a"])
                obj2, out2 = out_of(lambda: build(x))
                pre2 = ser(a2)
                if obj2 is not None and "e" in out2:
                    out2["same_obj"] = obj2 == a2
                    out2["same_str"] = obj2.to_y0() == a2.to_y0()
                recs.append({"id": rid + "#names", "k": "pp", "a": pre2, "out": out2, "text": a2.to_y0()[:300], "raw": has_raw(x)})
            except NotApplicable:
                pass
            except Exception:  # noqa: BLE001  (the argument could not be built / serialised: its own record reports that)
                stats["arg_failed"] += 1
            finally:
                ser_mod.set_naming("V")
            # the same round trip with every probability atom spelled through the public builder and operator chains
            SPELL["on"] = True
            try:
                a3 = build(x["a"])
                obj3, out3 = out_of(lambda: build(x))
                pre3 = ser(a3)
                if obj3 is not None and "e" in out3:
                    out3["same_obj"] = obj3 == a3
                    out3["same_str"] = obj3.to_y0() == a3.to_y0()
                # pub: the whole object comes from the public builder and the DSL operators (no rewrite helper such as
                # fraction_expand, which assembles distributions itself, took part)
                def ops_only(t):
                    return (not isinstance(t, dict)) or (t.get("op") in ("atom", "one", "zero", "mul", "div", "marg", "nmarg")
                                                         and all(ops_only(t.get(k)) for k in ("a", "b")))
                recs.append({"id": rid + "#spelled", "k": "pp", "a": pre3, "out": out3, "text": a3.to_y0()[:300],
                             "raw": has_raw(x), "pub": ops_only(x["a"])})
            except NotApplicable:
                pass
            except Exception:  # noqa: BLE001
                stats["arg_failed"] += 1
            finally:
                SPELL["on"] = False
        else:
            recs.append({"id": rid, "k": "calc", "m": x, "out": out})
    json.dump({"recs": recs, "stats": stats}, open(sys.argv[2], "w"))


if __name__ == "__main__":
    main()

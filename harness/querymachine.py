"""QueryMachine.tla: design-level model checking, behaviour generation, replay through y0's Query / Identification."""

from __future__ import annotations

import hashlib
import json

from common import (NCPU, NSHARDS, SPEC, MachineryError, cached, drive, run_parallel, seed, shard_hashseed,
                    tagged_lines, tlc, tlc_ok, tlc_violation)

GATING = {"state", "receiver-changed", "argument-changed", "other-failure", "result-type",
          "carried-graph-or-estimand-changed"}


def _mc(wd):
    r = tlc("QueryMachine.tla", SPEC / "QueryMachine_MC.cfg", workers=NCPU, meta=wd / "qm-mc")
    v = tlc_violation(r)
    if v:
        raise MachineryError(f"QueryMachine design check: {v} violated\n" + r["out"][-2000:])
    tlc_ok(r, "QueryMachine MC")
    return {"cfg": "QueryMachine_MC.cfg", "generated": r["generated"], "distinct": r["distinct"],
            "invariants": ["TypeOK", "ExchInverse", "ExprVocab"], "action_properties": ["Persistent", "Conserve", "OutcomesKept"]}


def _gen(cfg, wd, **kw):
    r = tlc("QueryMachine.tla", SPEC / cfg, meta=wd / f"qm-{cfg}", **kw)
    v = tlc_violation(r)
    if v or "Error:" in r["out"]:
        raise MachineryError(f"QueryMachine {cfg}: {v}\n" + r["out"][-2000:])
    behs = tagged_lines(r["out"], "BEH")
    uniq = {json.dumps(b, sort_keys=True): b for b in behs}
    return {"behs": [uniq[k] for k in sorted(uniq)], "generated": r["generated"], "distinct": r["distinct"]}


def warm(wd):
    cached("query-mc", lambda: _mc(wd), module="QueryMachine")
    cached("query-gen", lambda: _gen("QueryMachine_Gen.cfg", wd, workers=1), module="QueryMachine")


def run(wd, out, tier: str) -> dict:
    mc, mc_cached = cached("query-mc", lambda: _mc(wd), module="QueryMachine")
    gen, _ = cached("query-gen", lambda: _gen("QueryMachine_Gen.cfg", wd, workers=1), module="QueryMachine")
    nsim = 300 if tier == "quick" else 3000
    sim = _gen("QueryMachine_Sim.cfg", wd, workers=4, simulate=f"num={nsim}", depth=7, tlc_seed=3100 + seed())
    cap = 6000 if tier == "quick" else 60000
    sb = sorted(sim["behs"], key=lambda b: hashlib.sha256(json.dumps(b, sort_keys=True).encode()).hexdigest())[:cap]
    behs = gen["behs"] + sb
    jobs = []
    for i in range(NSHARDS):
        f = wd / f"qbeh{i}.json"
        f.write_text(json.dumps(behs[i::NSHARDS]))
        jobs.append((f, wd / f"qres{i}.json", i))

    def one(job):
        drive("drive_query.py", [str(job[0]), str(job[1])], hashseed=shard_hashseed(job[2]))
        return json.loads(job[1].read_text())

    results = run_parallel(one, jobs)
    diag, ops, steps, nfail = [], {}, 0, 0
    for r in results:
        steps += r["steps"]
        for k, v in r["ops"].items():
            ops[k] = ops.get(k, 0) + v
        for f in r["fails"]:
            if f["clause"] not in GATING:
                diag.append({k: f[k] for k in ("kind", "op", "arg", "clause", "got", "want") if k in f})
                continue
            prefix = [(st["op"], st["arg"]) for st in f["behaviour"][1 : f["step"] + 1]]
            key = "query:" + json.dumps({"q": f["behaviour"][0]["q"], "ops": prefix, "kind": f["kind"]}, sort_keys=True)
            out.fail(key, "query-" + f["clause"] + (":" + f["exc"] if "exc" in f else ""), f)
            nfail += 1
    if diag:
        print(f"DIAGNOSTIC property={out.pid} query-object observations outside the property's statement disagree with "
              f"QueryMachine.tla: {len(diag)} steps, e.g. {diag[0]}")
    return {"design_mc": {**mc, "cached": mc_cached}, "behaviours_depth2_exhaustive_3_names": len(gen["behs"]),
            "behaviours_walks_depth5_4_names": len(sb), "replayed_steps": steps, "steps_per_operation": ops,
            "objects": ["Query", "Identification"], "gating_failures": nfail, "diagnostic_failures": len(diag),
            "generated": gen["generated"] + sim["generated"] + mc["generated"],
            "distinct": gen["distinct"] + sim["generated"] + mc["distinct"],
            "rule": "behaviour = initial disjoint query over 3 (exhaustive, depth 2) or 4 (seeded walks, depth 5) names + "
                    "sequence of transformers; after every step every object created so far is projected and compared with "
                    "the spec's objs (persistence), the new object with the spec's q"}

#!/bin/sh
# MANIFEST.setup_cmd: offline; parse every spec module with SANY, check that y0 imports from /repo,
# warm the spec-only caches (generators and design-level model checking do not depend on /repo).
set -e
cd "$(dirname "$0")/.."
mkdir -p .work .cache evidence replay
for f in spec/*.tla; do
  (cd spec && java -cp /opt/veriftools/tla/tla2tools.jar:/opt/veriftools/tla/CommunityModules-deps.jar tla2sany.SANY "$(basename "$f")" >/tmp/sany.$$ 2>&1) || { cat /tmp/sany.$$; rm -f /tmp/sany.$$; echo "SANY failed on $f"; exit 1; }
  if grep -q "Semantic errors\|Parse Error\|Fatal errors" /tmp/sany.$$; then cat /tmp/sany.$$; rm -f /tmp/sany.$$; echo "SANY errors in $f"; exit 1; fi
done
rm -f /tmp/sany.$$
PYTHONPATH=/repo/src /venv/bin/python -c "import y0, y0.graph, y0.dsl; print('y0 from', y0.__file__)"
python3 harness/warm.py
echo setup-ok

"""C13: see check_expr.py (one specification, one pipeline for C10-C13)."""
import check_expr as ce

PID = "C13"


def warm():
    ce.warm()


def run(tier):
    return ce.run_for(PID, tier, RULE, ASSUME)


RULE = ("one record = the root operation of a TLC-generated math term (ExprCalc.tla: all terms to depth 1 over 19 atoms + One + 2 "
        "Q-factors, seeded slice of the 35k depth-2 terms over 8 atoms, seeded random walks to depth 3-5) executed with the real DSL "
        "operator on really-built arguments; TLC evaluates the returned object and Math(term) on all assignments of a generic "
        "distribution (complete DAG + common latent, two extra populations) and compares; chain expansions must have single-child "
        "factors; non-trivial = distinct term whose object is defined somewhere")
ASSUME = ["ranges of marginalisation/conditioning are drawn from the free random variables of the argument (sums over absent variables excluded, DESIGN 7)",
          "conditioning of terms with value-marked variables is excluded (silent in statement and docstrings)",
          "an exception is accepted only where the mathematical quantity is undefined at every point (division by zero)"]

"""CITrace.tla: traces of the real d_separations generator validated against CIMachine.tla by TLC."""

from __future__ import annotations

import json
import re

from common import NCPU, NSHARDS, SPEC, MachineryError, drive, run_parallel, shard_hashseed, tlc

_ACC = re.compile(r'<<"ACC", "((?:[^"\\]|\\.)*)">>')


def norm(g):
    return {"n": sorted(g["n"]), "d": sorted(list(e) for e in g["d"]), "b": sorted(sorted(e) for e in g["b"])}


def validate(wd, items: list[dict]) -> dict:
    """items: [{"id", "g", "ks"}].  Returns stats and the rejected traces."""
    jobs = []
    for i in range(NSHARDS):
        sh = items[i::NSHARDS]
        if sh:
            f = wd / f"cit-in{i}.json"
            f.write_text(json.dumps(sh))
            jobs.append((f, wd / f"cit-out{i}.json", i))

    def one(job):
        drive("drive_citrace.py", [str(job[0]), str(job[1])], hashseed=shard_hashseed(job[2]))
        traces = json.loads(job[1].read_text())
        tf = wd / f"cit-trace{job[2]}.json"
        tf.write_text(json.dumps(traces))
        r = tlc("CITrace.tla", SPEC / "CITrace.cfg", workers=1, meta=wd / f"cit-meta{job[2]}", env={"TRACE_FILE": str(tf)},
                xmx="2g", gcthreads=2)
        if "Error:" in r["out"] and "is violated" not in r["out"]:
            raise MachineryError("CITrace failed:\n" + r["out"][-2500:])
        acc = {json.loads(json.loads('"' + m + '"'))["id"] for m in _ACC.findall(r["out"])}
        inv = re.search(r"Error: Invariant (\S+) is violated", r["out"])
        return traces, acc, r["generated"], r["distinct"], inv.group(1) if inv else None

    traces, accepted, gen, dist, broken = [], set(), 0, 0, []
    for t, a, g_, d_, inv in run_parallel(one, jobs):
        traces += t
        accepted |= a
        gen += g_
        dist += d_
        if inv:
            broken.append(inv)
    rejected = [t for t in traces if t["id"] not in accepted]
    return {"traces": len(traces), "accepted": len(traces) - len(rejected), "events": sum(len(t["events"]) for t in traces),
            "generated": gen, "distinct": dist, "invariants_violated_on_a_prefix": sorted(set(broken)),
            "rejected": rejected}

"""Shared by C01/C02/C03/C06: generation of ID/IDC queries by TLC, driving y0, trace validation."""

from __future__ import annotations

import json
import random

import tv
from common import (NCPU, NSHARDS, shard_hashseed, MachineryError, cached, drive, run_parallel, tagged_lines, tlc, tlc_ok,
                    tlc_violation)


def _gen_cfg(wd, family, mode, rndn, rndk) -> str:
    f = wd / f"IDGen_{family}_{mode}.cfg"
    f.write_text(f'SPECIFICATION Spec\nCONSTANTS\n  Family = "{family}"\n  Mode = "{mode}"\n'
                 f"  RndN = {rndn}\n  RndK = {rndk}\nCHECK_DEADLOCK FALSE\n")
    return str(f)


def gen(wd, family: str, mode: str, *, rnd_seed=None, rndn=5, rndk=4):
    """All graphs of a family with their queries and reference verdicts (TLC-generated)."""
    def go():
        r = tlc("IDGen.tla", _gen_cfg(wd, family, mode, rndn, rndk), workers=NCPU,
                meta=wd / f"idgen{family}{mode}", tlc_seed=rnd_seed)
        tlc_ok(r, f"IDGen {family} {mode}")
        items = tagged_lines(r["out"], "IDG")
        items.sort(key=lambda it: json.dumps(it["g"], sort_keys=True))
        for it in items:
            # q[2] is a set (conditions) except in mode "tian", where it is a topological order (a sequence)
            it["qs"] = sorted([sorted(q[0]), sorted(q[1]), list(q[2]) if mode == "tian" else sorted(q[2]), q[3]] + list(q[4:])
                              for q in it["qs"])
        return {"items": items, "generated": r["generated"], "distinct": r["distinct"]}
    if rnd_seed is not None:
        return go(), False
    return cached(f"idgen-{family}-{mode}", go, module="IDGen")


def gen_x(wd):
    """Targeted inputs of IDGenX.tla: every identifiable query of family CH5 whose run reaches line 6 after a line 7 with a
    district of >= 2 variables and a treatment between two of them in the (forced) topological order."""
    def go():
        cfg = wd / "IDGenX.cfg"
        cfg.write_text('SPECIFICATION SpecX\nCONSTANTS\n  Family = "CH5"\n  Mode = "id"\n  RndN = 5\n  RndK = 1\nCHECK_DEADLOCK FALSE\n')
        r = tlc("IDGenX.tla", str(cfg), workers=NCPU, meta=wd / "idgenx", xmx="6g")
        tlc_ok(r, "IDGenX")
        items = tagged_lines(r["out"], "IDG")
        items.sort(key=lambda it: json.dumps(it["g"], sort_keys=True))
        for it in items:
            it["qs"] = sorted([sorted(q[0]), sorted(q[1]), sorted(q[2]), q[3]] + list(q[4:]) for q in it["qs"])
        return {"items": items, "generated": r["generated"], "distinct": r["distinct"]}
    return cached("idgenx-CH5", go, module="IDGenX")


def mc(wd, family: str, mode: str, seeds=(1, 2)):
    """Design-level model checking of the reference algorithm against the SCM semantics."""
    def go():
        cfg = wd / f"IDMachine_{family}_{mode}.cfg"
        invs = ["Sound", "Vocab"] + (["Complete"] if mode == "id" else []) + (["TianComplete"] if mode == "tian" else [])
        cfg.write_text(f'SPECIFICATION Spec\nCONSTANTS\n  Family = "{family}"\n  Mode = "{mode}"\n'
                       f"  Seeds = {{{', '.join(map(str, seeds))}}}\n  Check = TRUE\n  RndN = 5\n  RndK = 4\n"
                       + "".join(f"INVARIANT {i}\n" for i in invs) + "CHECK_DEADLOCK FALSE\n")
        r = tlc("IDMachine.tla", str(cfg), workers=NCPU, meta=wd / f"idmc{family}{mode}", xmx="6g")
        v = tlc_violation(r)
        if v:
            raise MachineryError(f"IDMachine design check {family}/{mode}: {v} violated\n" + r["out"][-3000:])
        tlc_ok(r, f"IDMachine {family} {mode}")
        return {"generated": r["generated"], "distinct": r["distinct"], "family": family, "mode": mode,
                "invariants": invs}
    return cached(f"idmc-{family}-{mode}", go, module="IDMachine")


def run_y0(wd, items: list[dict], n_orders: int, semantic: bool, tag: str) -> list[dict]:
    """Call the real y0 on every query of every item; returns TV groups (records carry ids gid:qi:order)."""
    shards = [items[i::NSHARDS] for i in range(NSHARDS)]
    jobs = []
    for i, sh in enumerate(shards):
        if not sh:
            continue
        f = wd / f"{tag}-in{i}.json"
        f.write_text(json.dumps([{"g": it["g"], "gid": it["gid"], "qs": [q[:3] for q in it["qs"]],
                                  **({"orders": it["orders"]} if "orders" in it else {})} for it in sh]))
        jobs.append((f, wd / f"{tag}-out{i}.json", i))

    def one(job):
        drive("drive_id.py", [str(job[0]), str(job[1]), str(n_orders), "1" if semantic else "0"], hashseed=shard_hashseed(job[2]))
        return json.loads(job[1].read_text())

    groups = []
    for r in run_parallel(one, jobs):
        groups += r
    return groups


def with_gids(items: list[dict], prefix: str) -> list[dict]:
    return [dict(it, gid=f"{prefix}{i}") for i, it in enumerate(items)]


def sample(items: list[dict], k: int, rng: random.Random) -> list[dict]:
    if k >= len(items):
        return list(items)
    return rng.sample(items, k)


def index(items: list[dict]) -> dict:
    """(gid, qi) -> (g, x, y, z, expected identifiable)."""
    return {(it["gid"], qi): (it["g"], *q) for it in items for qi, q in enumerate(it["qs"])}


def dedup(groups: list[dict]) -> tuple[list[dict], dict]:
    """Records of a group with identical query and outcome are validated once; returns (groups, id -> representative id)."""
    rep = {}
    out = []
    for g in groups:
        seen = {}
        recs = []
        for r in g["recs"]:
            key = json.dumps({k: v for k, v in r.items() if k != "id"}, sort_keys=True)
            if key in seen:
                rep[r["id"]] = seen[key]
            else:
                seen[key] = r["id"]
                rep[r["id"]] = r["id"]
                recs.append(r)
        out.append(dict(g, recs=recs))
    return out, rep


def strip_str(groups):
    """Drop diagnostic strings before handing the trace to TLC (smaller JSON)."""
    out = []
    for g in groups:
        recs = []
        for r in g["recs"]:
            o = {k: v for k, v in r["out"].items() if k not in ("str", "msg")}
            recs.append(dict(r, out=o))
        out.append(dict(g, recs=recs))
    return out


def judge(wd, groups, **kw):
    """dedup + validate; returns ({id: verdict} for every original id, stats, records by id)."""
    by_id = {r["id"]: (g, r) for g in groups for r in g["recs"]}
    small, rep = dedup(strip_str(groups))
    vs, st = tv.validate(wd, small, **kw)
    st["distinct_records"] = len(vs)
    return {i: vs[rep[i]] for i in rep}, st, by_id


def report(out, vs, by_id, idx, *, only_clauses=None, skip_clauses=()):
    """Turn failing verdicts into Outcome failures keyed by (graph, query) with a semantic signature."""
    seen = set()
    n = 0
    for rid, v in sorted(vs.items()):
        if v["ok"]:
            continue
        if only_clauses is not None and v["clause"] not in only_clauses:
            continue
        if v["clause"] in skip_clauses:
            continue
        g, r = by_id[rid]
        key = json.dumps({"g": {"n": g["n"], "d": g["d"], "b": g["b"]}, "x": r.get("x"), "y": r.get("y"),
                          "z": r.get("z", [])}, sort_keys=True)
        sig = v["clause"] + (f":{r['out'].get('exc')}" if r["out"]["k"] == "exc" else "") + \
            (f":{v['c']['sig']}" if v["clause"] == "value" else "")
        if (key, sig) in seen:
            continue
        seen.add((key, sig))
        n += 1
        out.fail(key, sig, {"record": r, "verdict": v,
                            "repro": "see harness/replay.py; graph nodes are V<i>"})
    return n

"""Run the repository's pinned test suite with the verification guard OFF and compare with BASELINE.json."""
import json, os, subprocess, sys, tempfile, xml.etree.ElementTree as ET

base = json.load(open("/root/.vp/BASELINE.json"))
env = {k: v for k, v in os.environ.items() if k != "Y0_VERIF"}
with tempfile.TemporaryDirectory() as d:
    x = os.path.join(d, "junit.xml")
    subprocess.run(["/venv/bin/python", "-m", "pytest", "-ra", "-q", "-p", "no:cacheprovider", "--timeout=900",
                    "--continue-on-collection-errors", f"--junitxml={x}"], cwd="/repo", env=env,
                   stdout=subprocess.DEVNULL, stderr=subprocess.DEVNULL)
    passed = set()
    for tc in ET.parse(x).getroot().iter("testcase"):
        if not any(c.tag in ("failure", "error", "skipped") for c in tc):
            passed.add(f"{tc.get('classname')}::{tc.get('name')}")
missing = sorted(set(base["stable_pass"]) - passed)
print(f"baseline stable_pass={len(base['stable_pass'])} passed_now={len(passed)} missing={len(missing)}")
for m in missing[:20]:
    print("  MISSING", m)
sys.exit(1 if missing else 0)

"""Registered entry point: python3 harness/run_check.py <property id> --tier quick|thorough."""

from __future__ import annotations

import argparse
import importlib
import os
import sys

sys.path.insert(0, os.path.dirname(os.path.abspath(__file__)))

from common import main_wrapper  # noqa: E402


def main() -> int:
    ap = argparse.ArgumentParser()
    ap.add_argument("pid")
    ap.add_argument("--tier", default=os.environ.get("VERIF_TIER", "quick"), choices=["quick", "thorough"])
    a = ap.parse_args()
    mod = importlib.import_module(f"check_{a.pid.lower()}")
    return mod.run(a.tier)


if __name__ == "__main__":
    main_wrapper(main)

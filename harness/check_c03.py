"""C03: IDC estimands equal the true conditional interventional distribution.

Design level: IDMachine.tla in mode idc (reference IDC built on true m-separation, invariant Sound) on all
3-node ADMGs.  Conformance: every TLC-generated (G, X, Y, Z) is run through identify_outcomes(conditions=Z) /
idc and the estimand is validated by TLC against P(Y,Z|do X)/P(Z|do X); outcomes other than an estimand or
the 'unidentifiable' refusal are rejected.
"""

from __future__ import annotations

import random

import examples as ex
import idcommon as ic
from common import Outcome, seed, workdir

PID = "C03"


def warm():
    wd = workdir("c03-warm")
    ic.mc(wd, "A3", "idc")
    ic.gen(wd, "A3", "idc")
    ic.gen(wd, "A4o", "idc")


def run(tier: str) -> int:
    out = Outcome(PID, tier)
    wd = workdir(PID)
    mcs = [ic.mc(wd, "A3", "idc")[0]]
    g3 = ic.gen(wd, "A3", "idc")[0]
    g4 = ic.gen(wd, "A4o", "idc")[0]
    rng = random.Random(3000 + seed())
    items = ic.with_gids(g3["items"], "A3-")
    items += ic.sample(ic.with_gids(g4["items"], "A4o-"), 200 if tier == "quick" else 2000, rng)
    r5 = ic.gen(wd, "RND", "idc", rnd_seed=31 + seed(), rndn=5, rndk=3 if tier == "quick" else 6)[0]
    r5i = ic.with_gids(r5["items"], "R5-")
    for it in r5i:
        it["qs"] = rng.sample(it["qs"], 40 if tier == "quick" else 120)
    items += r5i
    # every identifiable 4-node query whose final ID call takes another recursive step inside a sub-problem that line 7
    # created (ID.tla IDSteps / DeepAfter7; 5th field of the generated query)
    for it in ic.with_gids(g4["items"], "A4d-"):
        deep = [q for q in it["qs"] if q[3] and q[4]]
        if deep:
            items.append(dict(it, qs=deep))
    # the repository's example catalogue: single-variable X, Y, Z queries on its 5-8 node graphs (IDGenFile.tla)
    exg = ex.id_items(wd, "idc")
    items += [dict(it, orders=1) for it in ex.pick([dict(it, own=[]) for it in exg["items"] if len(it["g"]["n"]) <= (5 if tier == "quick" else 6)],
                                                   8 if tier == "quick" else 60, rng, "EX-")]
    groups = ic.run_y0(wd, items, 2, True, "c03")
    vs, st, by_id = ic.judge(wd, groups, seeds=(1, 2) if tier == "quick" else (1, 2, 3))
    ic.report(out, vs, by_id, ic.index(items), skip_clauses={"vocabulary"})
    sem = sorted(i for i, v in vs.items() if v["clause"] == "ok")
    nontriv = {i.rsplit(":", 1)[0] for i in sem if by_id[i][0]["b"]}
    idx = ic.index(items)
    # informational: where y0 refuses although the reference IDC answers (the statement makes no completeness claim)
    spurious = sum(1 for i, v in vs.items() if v["clause"] == "refused" and idx[(i.split(":")[0], int(i.split(":")[1]))][4])
    cov = {
        "states": sum(m["distinct"] for m in mcs) + g3["distinct"] + g4["distinct"] + r5["distinct"] + st["distinct"] + exg["distinct"],
        "transitions": sum(m["generated"] for m in mcs) + g3["generated"] + g4["generated"] + r5["generated"] + st["generated"] + exg["generated"],
        "traces_validated_against_impl": len(vs),
        "estimands_evaluated": len(sem),
        "refusals_where_reference_answers": spurious,
        "distinct_nontrivial": len(nontriv),
        "rule": "one record = one call of identify_outcomes(conditions=Z)/idc on pairwise disjoint (X, Y, Z), Y and Z non-empty, X "
                "possibly empty; estimand evaluated by TLC on all assignments of generic SCMs and compared with "
                "P(Y,Z|do X)/P(Z|do X); all 200 3-node ADMGs x 18 queries exhaustively, seeded sample of 4-node ADMGs x 110 "
                "queries, seeded 5-node graphs; non-trivial = answered query on a graph with a bidirected edge",
        "samples": [{"id": i, "graph": {k: by_id[i][0][k] for k in "ndb"}, "x": by_id[i][1]["x"], "y": by_id[i][1]["y"],
                     "z": by_id[i][1]["z"], "estimand": by_id[i][1]["out"].get("str")} for i in sem[:: max(1, len(sem) // 3)][:3]],
        "exhaustive": False,
        "design_mc": mcs,
        "clauses": {c: sum(1 for v in vs.values() if v["clause"] == c) for c in {v["clause"] for v in vs.values()}},
    }
    return out.finish("model_checking", cov, [
        "SCM family S (binary, one latent per bidirected edge, generic kernels in GF(32749)); points where P(Z|do X) vanishes are skipped",
        "no completeness claim is checked (the statement makes none)"])

"""Shared by C05 and the transport part of C06."""

from __future__ import annotations

import json
import random

import idcommon as ic
from common import NCPU, NSHARDS, shard_hashseed, drive, run_parallel, seed


def overlapping(nodes):
    """Domain configurations whose experiment set Z and surrogate-outcome set W overlap (a variable that is both
    intervened on and recorded in the source): IDGen's DomainConfigs keeps Z and W disjoint, these are offered on top.
    Inputs only - the derived selection diagram and the truth are computed by TLC (TV.tla PopTag / TransportNodes)."""
    import itertools as itt
    nodes = sorted(nodes)
    out = []
    for states in itt.product(range(4), repeat=len(nodes)):    # 0 none, 1 Z only, 2 W only, 3 both
        if 3 in states:
            z = [n for n, s_ in zip(nodes, states) if s_ in (1, 3)]
            w = [n for n, s_ in zip(nodes, states) if s_ in (2, 3)]
            out.append([z, w])
    return out


def problems(wd, tier, rng):
    """TLC-generated graphs x queries x domain configurations (IDGen mode trso)."""
    g3 = ic.gen(wd, "A3", "trso")[0]
    g4 = ic.gen(wd, "A4o", "trso")[0]
    items = []
    q = tier == "quick"
    for gi, it in enumerate(g3["items"]):
        doms = sorted([sorted(d[0]), sorted(d[1])] for d in it["doms"])
        qs = [[qq[0], qq[1]] for qq in it["qs"]]
        items.append({"g": it["g"], "gid": f"A3-{gi}-none", "qs": qs, "doms": [], "orders": 2})
        for di, d in enumerate(doms if not q else rng.sample(doms, 6)):
            items.append({"g": it["g"], "gid": f"A3-{gi}-d{di}", "qs": qs, "doms": [d], "orders": 1})
        ov = overlapping(it["g"]["n"])
        for di, d in enumerate(rng.sample(ov, 5 if q else 20)):
            items.append({"g": it["g"], "gid": f"A3-{gi}-o{di}", "qs": qs if not q else rng.sample(qs, 8), "doms": [d], "orders": 1})
        for k in range(1 if q else 4):
            d2 = rng.sample(doms, 2)
            items.append({"g": it["g"], "gid": f"A3-{gi}-p{k}", "qs": qs if not q else rng.sample(qs, 6), "doms": d2, "orders": 3})
    a4 = list(enumerate(g4["items"]))
    for gi, it in rng.sample(a4, 150 if q else 1500):
        doms = sorted([sorted(d[0]), sorted(d[1])] for d in it["doms"])
        qs = [[qq[0], qq[1]] for qq in it["qs"]]
        items.append({"g": it["g"], "gid": f"A4-{gi}-none", "qs": rng.sample(qs, 12), "doms": [], "orders": 1})
        for k in range(3 if q else 6):
            nd = 1 + (k % 3 if not q else k % 2)
            items.append({"g": it["g"], "gid": f"A4-{gi}-c{k}", "qs": rng.sample(qs, 10), "doms": rng.sample(doms, nd), "orders": 2 if nd >= 2 else 1})
        ov = overlapping(it["g"]["n"])
        items.append({"g": it["g"], "gid": f"A4-{gi}-o", "qs": rng.sample(qs, 10), "doms": rng.sample(ov, 1), "orders": 1})
    return items, [g3, g4]


def rare_problems(wd):
    """TRSO.tla GenSpec: the (graph, query, source domain) problems of the ordered 4-node ADMGs on which the reference TRSO
    takes a further recursive step inside a source domain after a line 10 of that domain (TRSOSteps)."""
    from common import cached, tagged_lines, tlc, tlc_ok

    def go():
        cfg = wd / "TRSOGen.cfg"
        # (Family only feeds the machine's own Inputs, which TLC evaluates eagerly: keep it tiny here)
        cfg.write_text('SPECIFICATION GenSpec\nCONSTANTS\n  Family = "A2"\n  RndN = 5\n  RndK = 4\n  Seeds = {1}\n  MaxDomains = 1\n'
                       "CHECK_DEADLOCK FALSE\n")
        r = tlc("TRSO.tla", str(cfg), workers=NCPU, meta=wd / "trsogen", xmx="6g")
        tlc_ok(r, "TRSO GenSpec")
        lines = tagged_lines(r["out"], "TRX")
        lines.sort(key=lambda it: json.dumps(it["g"], sort_keys=True))
        return {"lines": lines, "generated": r["generated"], "distinct": r["distinct"]}
    return cached("trso-rare-A4o", go, module="TRSO")


def rare_items(wd):
    g = rare_problems(wd)[0]
    items = []
    for gi, line in enumerate(g["lines"]):
        by_dom = {}
        for p in line["ps"]:
            by_dom.setdefault((tuple(sorted(p["z"])), tuple(sorted(p["w"]))), []).append([sorted(p["x"]), sorted(p["y"])])
        for di, (dom, qs) in enumerate(sorted(by_dom.items())):
            items.append({"g": line["g"], "gid": f"RARE-{gi}-{di}", "qs": sorted(qs), "doms": [[list(dom[0]), list(dom[1])]], "orders": 2})
    return items, g


def run_y0(wd, items, tag):
    shards = [items[i::NSHARDS] for i in range(NSHARDS)]
    jobs = []
    for i, sh in enumerate(shards):
        if sh:
            f = wd / f"{tag}-in{i}.json"
            f.write_text(json.dumps(sh))
            jobs.append((f, wd / f"{tag}-out{i}.json", i))

    def one(job):
        drive("drive_tr.py", [str(job[0]), str(job[1])], hashseed=shard_hashseed(job[2]))
        return json.loads(job[1].read_text())

    return [g for r in run_parallel(one, jobs) for g in r]


def report(out, vs, by_id, only=None, skip=()):
    seen = set()
    for rid, v in sorted(vs.items()):
        if v["ok"] or (only is not None and v["clause"] not in only) or v["clause"] in skip:
            continue
        g, r = by_id[rid]
        key = json.dumps({"g": {k: g[k] for k in "ndb"}, "domains": g["pops"], "x": r["x"], "y": r["y"]}, sort_keys=True)
        sig = v["clause"] + (f":{r['out'].get('exc')}" if r["out"]["k"] == "exc" else "") + (f":{v['c']['sig']}" if v["clause"] == "value" else "")
        if (key, sig) not in seen:
            seen.add((key, sig))
            out.fail(key, sig, {"record": r, "verdict": v, "domains": g["pops"]})

#!/bin/sh
# usage: seedrun2.sh <seed name> <property id>...
# Run quick checks against a seeded change WITHOUT touching /repo: a scratch worktree of /repo's HEAD gets the patch,
# the checks run with Y0_REPO pointing at it and write their evidence / replay files to a scratch directory; the
# worktree is removed afterwards.  (seedrun.sh applies the patch to /repo itself instead; use that one when nothing else
# is running.)
NAME=$1; shift
WT=/tmp/sw/$NAME
mkdir -p /tmp/sw
git -C /repo worktree remove --force $WT 2>/dev/null
git -C /repo worktree add -q --detach $WT HEAD || exit 3
if ! git -C $WT apply /verif/seeded/$NAME/patch.diff 2>/dev/null; then
  git -C $WT apply --3way /verif/seeded/$NAME/patch.diff 2>/dev/null || { echo "PATCH-DOES-NOT-APPLY $NAME"; git -C /repo worktree remove --force $WT; exit 3; }
fi
cd /verif
for P in "$@"; do
  Y0_REPO=$WT VERIF_EVIDENCE_DIR=$WT.evid VERIF_REPLAY_DIR=$WT.replay python3 harness/run_check.py $P --tier quick > $WT.$P.log 2>&1; RC=$?
  echo "seed=$NAME check=$P rc=$RC violations=$(grep -c '^VIOLATION' $WT.$P.log) $(tail -1 $WT.$P.log)"
  [ $RC -eq 1 ] && python3 - "$WT.replay/$P/violation_0.json" <<'PY'
import json,sys
try:
    d=json.load(open(sys.argv[1])); print("   first:", d.get("sig"), str(d.get("key"))[:160])
except Exception as e: print("   (no replay file)", e)
PY
  [ $RC -eq 2 ] && tail -15 $WT.$P.log
done
git -C /repo worktree remove --force $WT; rm -rf $WT.evid $WT.replay $WT.*.log

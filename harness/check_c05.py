"""C05: surrogate-outcome / transport (TRSO) estimands equal the target effect.

The multi-domain SCM family is built by the spec: domain k shares every mechanism with the target except at
TransportNodes(G, Z_k, W_k) (ID.tla), where it gets fresh generic kernels; PP[pi*] terms are evaluated in the target,
PP[pi_k][Z'] terms in domain k under do(Z').  Every estimand identify_target_outcomes returns on TLC-generated
problems is validated by TLC against P*(y | do x); with no source domain the outcome class must agree with the ID
oracle; exceptions are rejected.
"""

from __future__ import annotations

import random

import idcommon as ic
import trcommon as tc
from common import NCPU, MachineryError, Outcome, cached, seed, tlc, tlc_ok, tlc_violation, workdir

PID = "C05"


INVS = ["Sound", "ReducesToID", "Vocab"]


def trso_mc(wd, family="A3o", maxdom=1):
    """Design level: the reference TRSO of TRSO.tla is sound against the multi-domain SCM semantics, reduces to ID without
    a domain and keeps the vocabulary, on every (graph, query, domain configuration) of the family."""
    def go():
        cfg = wd / f"TRSO_{family}_{maxdom}.cfg"
        cfg.write_text(f'SPECIFICATION Spec\nCONSTANTS\n  Family = "{family}"\n  RndN = 5\n  RndK = 4\n  Seeds = {{1, 2}}\n'
                       f"  MaxDomains = {maxdom}\n" + "".join(f"INVARIANT {i}\n" for i in INVS) + "CHECK_DEADLOCK FALSE\n")
        r = tlc("TRSO.tla", str(cfg), workers=NCPU, meta=wd / f"trsomc{family}{maxdom}", xmx="6g")
        v = tlc_violation(r)
        if v:
            raise MachineryError(f"TRSO design check ({family}): {v} violated\n" + r["out"][-2500:])
        tlc_ok(r, "TRSO MC")
        return {"family": family, "max_domains": maxdom, "generated": r["generated"], "distinct": r["distinct"], "invariants": INVS}
    return cached(f"trso-mc-{family}-{maxdom}", go, module="TRSO")


def warm():
    wd = workdir("c05-warm")
    trso_mc(wd)
    ic.gen(wd, "A3", "trso")
    ic.gen(wd, "A4o", "trso")
    tc.rare_problems(wd)


def run(tier: str) -> int:
    out = Outcome(PID, tier)
    wd = workdir(PID)
    rng = random.Random(500 + seed())
    mcs = [trso_mc(wd)[0]] + ([trso_mc(wd, "A3o", 2)[0]] if tier == "thorough" else [])
    items, gens = tc.problems(wd, tier, rng)
    rare, rg = tc.rare_items(wd)   # every problem on which the reference recurses again inside a source domain after line 10
    items += rare
    gens.append(rg)
    groups = tc.run_y0(wd, items, "c05")
    vs, st, by_id = ic.judge(wd, groups, seeds=(1, 2) if tier == "quick" else (1, 2, 3))
    tc.report(out, vs, by_id, skip={"vocabulary"})
    sem = sorted(i for i, v in vs.items() if v["clause"] == "ok")
    with_domain = [i for i in sem if by_id[i][0]["pops"]]
    uses_domain = [i for i in with_domain if "π" in (by_id[i][1]["out"].get("str") or "")]
    cov = {
        "states": sum(g["distinct"] for g in gens) + st["distinct"] + sum(m["distinct"] for m in mcs),
        "transitions": sum(g["generated"] for g in gens) + st["generated"] + sum(m["generated"] for m in mcs),
        "design_mc": mcs,
        "traces_validated_against_impl": len(vs),
        "estimands_evaluated": len(sem), "with_source_domains": len(with_domain),
        "estimands_using_a_source_distribution": len(uses_domain),
        "rare_path_problems": sum(len(it["qs"]) for it in rare),
        "distinct_nontrivial": len({(by_id[i][0]["gid"], tuple(by_id[i][1]["x"]), tuple(by_id[i][1]["y"])) for i in uses_domain}),
        "rule": "one record = identify_target_outcomes(G, X, Y, domains) with 0, 1 or 2-3 source domains (Z_k, W_k) drawn from "
                "TLC's enumeration of all disjoint (Z, W), W non-empty; estimand evaluated by TLC in the multi-domain family "
                "(fresh mechanisms exactly at TransportNodes) on all assignments and compared with P*(y|do x); 3-node ADMGs "
                "exhaustively over graphs and queries with a seeded slice of domain configurations, seeded 4-node problems, and "
                "every single-domain problem of the ordered 4-node ADMGs on which the reference (TRSO.tla TRSOSteps) recurses "
                "again inside a source domain after line 10; "
                "non-trivial = distinct problem whose estimand mentions a source-domain distribution",
        "samples": [{"id": i, "graph": {k: by_id[i][0][k] for k in "ndb"}, "domains": by_id[i][0]["pops"], "x": by_id[i][1]["x"],
                     "y": by_id[i][1]["y"], "estimand": by_id[i][1]["out"].get("str")} for i in (uses_domain or sem)[:: max(1, len(uses_domain or sem) // 3)][:3]],
        "exhaustive": False,
        "clauses": {c: sum(1 for v in vs.values() if v["clause"] == c) for c in {v["clause"] for v in vs.values()}},
    }
    return out.finish("model_checking", cov, [
        "a domain differs from the target exactly at the nodes of the selection diagram the spec derives (TransportNodes in ID.tla, the formula of the surrogate-outcomes paper)",
        "the 'exactly when ID does' clause is checked for problems without any source domain",
        "SCM family S, binary variables, GF(32749)"])

"""C01: ID estimands equal the true interventional distribution.

Design level: IDMachine.tla (reference ID vs SCM semantics, invariant Sound) on every 3-node ADMG.
Conformance: every TLC-generated (G, X, Y) is run through the real identify_outcomes / identify and the
returned estimand is validated by TLC (TV.tla) against P(Y | do(X)) of generic SCMs compatible with G.
"""

from __future__ import annotations

import random

import examples as ex
import idcommon as ic
from common import Outcome, seed, workdir

PID = "C01"


def warm():
    wd = workdir("c01-warm")
    ic.mc(wd, "A3", "id")
    ic.gen(wd, "A3", "id")
    ic.gen(wd, "A4o", "id")
    ic.gen(wd, "P5", "id")
    ic.gen_x(wd)


def inputs(wd, tier):
    g3 = ic.gen(wd, "A3", "id")[0]
    g4 = ic.gen(wd, "A4o", "id")[0]
    rng = random.Random(1000 + seed())
    items = ic.with_gids(g3["items"], "A3-")
    a4 = ic.with_gids(g4["items"], "A4o-")
    items += ic.sample(a4, 400 if tier == "quick" else 4096, rng)
    r5 = ic.gen(wd, "RND", "id", rnd_seed=77 + seed(), rndn=5, rndk=3 if tier == "quick" else 8)[0]
    r5items = ic.with_gids(r5["items"], "R5-")
    qrng = random.Random(5 + seed())
    for it in r5items:  # 180 queries per 5-node graph: keep a seeded slice
        it["qs"] = qrng.sample(it["qs"], 30 if tier == "quick" else 90)
    # every query of the two-chain family P5 on which ID passes through line 7 twice on one path (ID.tla L7Depth >= 2),
    # and a seeded sample of its other queries
    p5 = ic.gen(wd, "P5", "id")[0]
    p5items = []
    for it in ic.with_gids(p5["items"], "P5-"):
        deep = [q for q in it["qs"] if q[4] >= 2]
        rest = [q for q in it["qs"] if q[4] < 2]
        qs = deep + qrng.sample(rest, 1 if tier == "quick" else 6)
        p5items.append(dict(it, qs=qs))
    # every identifiable 4-node query with another recursive step inside a sub-problem that line 7 created (DeepAfter7)
    deep4 = []
    for it in ic.with_gids(g4["items"], "A4d-"):
        deep = [q for q in it["qs"] if q[3] and q[5]]
        if deep:
            deep4.append(dict(it, qs=deep))
    # the repository's example catalogue (5-8 node graphs from the literature): its own example queries and a seeded
    # sample of the identifiable queries with |X| + |Y| <= 3 (IDGenFile.tla)
    exg = ex.id_items(wd, "id")
    # (the semantic clause costs 2^n assignments per nested sum: catalogue graphs with <= 6 nodes here, the 7-8 node ones
    #  are covered by the outcome classes of C02 and the separation tables of C04 / C15 / C20)
    exi = [dict(it, qs=[q for q in it["qs"] if q[3]], own=[q for q in it["own"] if q[3]]) for it in exg["items"]
           if len(it["g"]["n"]) <= (5 if tier == "quick" else 6)]
    exitems = ex.pick(exi, 4 if tier == "quick" else 40, qrng, "EX-")
    # every identifiable query of the chain family CH5 whose run applies line 6 to a non-observational distribution with a
    # district of >= 2 variables that a treatment separates in the topological order (IDGenX.tla WideL6; 298 queries)
    chx = ic.gen_x(wd)[0]
    chitems = ic.with_gids(chx["items"], "CH5-")
    allq = [(i, q) for i, it in enumerate(chitems) for q in it["qs"]]
    keep = qrng.sample(allq, 40) if tier == "quick" else allq   # these estimands are deep (fractions of sums): a seeded sample in quick
    chitems = [dict(it, qs=[q for j, q in keep if j == i], orders=1 if tier == "quick" else 2) for i, it in enumerate(chitems)]
    chitems = [it for it in chitems if it["qs"]]
    exitems = [dict(it, orders=1) for it in exitems]
    return items + r5items + p5items + deep4 + exitems + chitems, [g3, g4, r5, p5, exg, chx]


def run(tier: str) -> int:
    out = Outcome(PID, tier)
    wd = workdir(PID)
    mcs = [ic.mc(wd, "A3", "id")[0]]
    items, gens = inputs(wd, tier)
    groups = ic.run_y0(wd, items, 3, True, "c01")   # sorted insertion, permuted names + shuffled insertion, history
    kw = {}
    vs, st, by_id = ic.judge(wd, groups, seeds=(1, 2) if tier == "quick" else (1, 2, 3), **kw)
    extra = {}
    if tier == "thorough":
        # other latent structure (one latent per bidirected clique) and a ternary variable
        sub = [g for g in groups if g["b"]][::4]
        vs2, st2, by2 = ic.judge(wd, sub, seeds=(4,), layout="clique", ternary=(2,), tag="tv-clique")
        extra = {"clique_ternary_records": len(vs2)}
        for k, v in vs2.items():
            if not v["ok"] and vs[k]["ok"]:
                vs[k] = v
        st["generated"] += st2["generated"]
        st["distinct"] += st2["distinct"]
    # C01 owns the value clauses; verdict/exception clauses belong to C02, vocabulary to C06
    ic.report(out, vs, by_id, ic.index(items), only_clauses={"value", "undefined-everywhere", "multi-world-term"})
    sem = [i for i, v in vs.items() if v["clause"] == "ok"]
    nontriv = {(i.rsplit(":", 1)[0]) for i in sem if by_id[i][0]["b"]}
    sample_ids = sorted(sem)[:: max(1, len(sem) // 3)][:3]
    cov = {
        "states": sum(m["distinct"] for m in mcs) + sum(g["distinct"] for g in gens) + st["distinct"],
        "transitions": sum(m["generated"] for m in mcs) + sum(g["generated"] for g in gens) + st["generated"],
        "traces_validated_against_impl": len(vs),
        "estimands_evaluated": len(sem),
        "distinct_records_evaluated_by_tlc": st["distinct_records"],
        "distinct_nontrivial": len(nontriv),
        "rule": "one record = one call of identify_outcomes/identify on (G, X, Y); every estimand is evaluated by TLC on "
                "all value assignments of generic SCMs (GF(32749)) and compared with P(Y|do X) by truncated factorisation; "
                "non-trivial = distinct (G,X,Y) with a returned estimand on a graph with a bidirected edge; all 200 3-node "
                "ADMGs x 12 queries exhaustively, seeded sample of the 4096 ordered 4-node ADMGs x 50 queries, seeded 5-node graphs, "
                "every query of the 512-graph two-chain family P5 on which the reference ID applies line 7 twice on one path",
        "samples": [{"id": i, "x": by_id[i][1]["x"], "y": by_id[i][1]["y"], "graph": {k: by_id[i][0][k] for k in "ndb"},
                     "estimand": by_id[i][1]["out"].get("str")} for i in sample_ids],
        "exhaustive": False,
        "design_mc": mcs,
        "clauses": {c: sum(1 for v in vs.values() if v["clause"] == c) for c in {v["clause"] for v in vs.values()}},
        **extra,
    }
    return out.finish("model_checking", cov, [
        "SCM family S: binary (one ternary in thorough) variables, one binary latent per bidirected edge (per clique in thorough), generic kernels in GF(32749)",
        "identity testing is one-sided: a wrong estimand escapes with probability <= deg/32749 per seed",
        "beyond 5 nodes only the 6-node catalogue graph (a sample of its queries) is explored semantically"])

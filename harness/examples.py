"""The repository's own example catalogue (y0.examples) as one more graph family (spec: FileFamily / SepFile / IDGenFile).

The catalogue is dumped from /repo's working tree by drive_examples.py (inputs only: graphs and query shapes); every
expected value is computed by TLC from the definitions, exactly as for the generated families.  Results are cached by
the hash of the dumped graphs together with the spec closure.
"""

from __future__ import annotations

import hashlib
import json

from common import NCPU, MachineryError, cached, drive, tagged_lines, tlc, tlc_ok, tlc_violation

MAX_NODES = 8


def catalogue(wd) -> dict:
    f = wd / "examples.json"
    if not f.exists():
        drive("drive_examples.py", [str(f), str(MAX_NODES)])
    return json.loads(f.read_text())


def _graph_file(wd, cat, min_nodes):
    gs = [{k: g[k] for k in "ndb"} for g in cat["graphs"] if len(g["n"]) >= min_nodes]
    text = json.dumps(gs, sort_keys=True)
    f = wd / f"examples-graphs-{min_nodes}.json"
    f.write_text(text)
    return f, hashlib.sha256(text.encode()).hexdigest()[:12], len(gs)


def sep_tables(wd, min_nodes=5) -> dict:
    """SepMachine's tables (and its design-level invariants) on the catalogue graphs with >= min_nodes nodes."""
    cat = catalogue(wd)
    gf, h, n = _graph_file(wd, cat, min_nodes)

    def go():
        cfg = wd / "SepFile.cfg"
        cfg.write_text('SPECIFICATION SpecF\nCONSTANTS\n  Family = "FILE"\n  RndN = 5\n  RndK = 1\n  Grows = FALSE\n'
                       "INVARIANT EquivOnADMG\nINVARIANT SigmaLaws\nINVARIANT Emit\nCHECK_DEADLOCK FALSE\n")
        r = tlc("SepFile.tla", str(cfg), workers=NCPU, meta=wd / "sepfile", env={"GRAPH_FILE": str(gf)}, xmx="6g")
        v = tlc_violation(r)
        if v:
            raise MachineryError(f"SepFile design check: {v} violated on the example catalogue\n" + r["out"][-2000:])
        tlc_ok(r, "SepFile")
        recs = tagged_lines(r["out"], "SEP")
        if len(recs) != n:
            raise MachineryError(f"SepFile printed {len(recs)} tables for {n} graphs")
        return {"recs": recs, "generated": r["generated"], "distinct": r["distinct"], "family": "examples",
                "skipped": cat["skipped"], "names": [g["name"] for g in cat["graphs"] if len(g["n"]) >= min_nodes]}
    return cached(f"sepfile-{min_nodes}-{h}", go, module="SepFile")[0]


def id_items(wd, mode="id", maxq=3, min_nodes=5) -> dict:
    """IDGen's items (graph, queries, reference verdicts) on the catalogue graphs with >= min_nodes nodes."""
    cat = catalogue(wd)
    gf, h, n = _graph_file(wd, cat, min_nodes)

    def go():
        cfg = wd / f"IDGenFile_{mode}.cfg"
        cfg.write_text(f'SPECIFICATION SpecF\nCONSTANTS\n  Family = "FILE"\n  Mode = "{mode}"\n  RndN = 5\n  RndK = 1\n'
                       f"  MaxQ = {maxq}\nCHECK_DEADLOCK FALSE\n")
        r = tlc("IDGenFile.tla", str(cfg), workers=NCPU, meta=wd / f"idgenfile{mode}", env={"GRAPH_FILE": str(gf)}, xmx="6g")
        tlc_ok(r, f"IDGenFile {mode}")
        items = tagged_lines(r["out"], "IDG")
        if len(items) != n:
            raise MachineryError(f"IDGenFile printed {len(items)} items for {n} graphs")
        items.sort(key=lambda it: json.dumps(it["g"], sort_keys=True))
        for it in items:
            it["qs"] = sorted([sorted(q[0]), sorted(q[1]), sorted(q[2]), q[3]] + list(q[4:]) for q in it["qs"])
        return {"items": items, "generated": r["generated"], "distinct": r["distinct"]}
    res = cached(f"idgenfile-{mode}-{maxq}-{min_nodes}-{h}", go, module="IDGenFile")[0]
    # mark the catalogue's own example queries (they are what a reader of the documentation runs): field "own"
    own = {json.dumps({k: g[k] for k in "ndb"}, sort_keys=True): g["queries"] for g in cat["graphs"]}
    items = []
    for it in res["items"]:
        g = {"n": sorted(it["g"]["n"]), "d": sorted(list(e) for e in it["g"]["d"]), "b": sorted(sorted(e) for e in it["g"]["b"])}
        mine = own.get(json.dumps(g, sort_keys=True), [])
        items.append(dict(it, own=[q for q in it["qs"] if [q[0], q[1], q[2]] in mine]))
    return dict(res, items=items)


def pick(items, k, rng, prefix):
    """Per catalogue graph: its own example queries plus a seeded sample of k further queries."""
    out = []
    for i, it in enumerate(items):
        rest = [q for q in it["qs"] if q not in it["own"]]
        out.append({"g": it["g"], "gid": f"{prefix}{i}", "qs": it["own"] + rng.sample(rest, min(k, len(rest)))})
    return out

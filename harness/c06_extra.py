"""Transport (and later ID*/IDC*) parts of C06."""

from __future__ import annotations

import random

import cfcommon as cf
import idcommon as ic
import trcommon as tc
from common import seed


def _splits(ev):
    n = len(ev)
    for mask in range(1, 2 ** n - 1):
        yield [ev[i] for i in range(n) if not mask >> i & 1], [ev[i] for i in range(n) if mask >> i & 1]


def star_parts(wd, tier):
    """ID* / IDC* estimands contain single-world terms only.  Nothing is evaluated here (TV kind svocab), so the family
    is wider than the semantic families of C07 / C08: every single atom and a slice of the pairs and three-world triples on
    the 3-node ADMGs, and two-atom events (one subscript each, possibly in different worlds) on seeded 4-node ADMGs."""
    rng = random.Random(661 + seed())
    items, g = cf.event_family(wd, tier, pairs_step=7, three_world=8 if tier == "quick" else 40)
    g4 = cf.gen(wd, "A4o", 4, 2, 2, False)[0]
    p4 = [e for e in g4["events"] if len(e) == 2]
    ng, ne = (160, 80) if tier == "quick" else (1500, 200)
    for k, gr in enumerate(rng.sample(g4["graphs"], ng)):
        items.append({"g": gr, "gid": f"A4-{k}", "evs": rng.sample(p4, ne), "triples": []})
    citems = []
    for it in items:
        evs = []
        for e in it["evs"]:
            if len(e) >= 2:
                sp = list(_splits(e))
                evs.append(sp[len(evs) % len(sp)])
        citems.append(dict(it, evs=evs))
    for mode, its, name in (("star", items, "idstar"), ("cstar", citems, "idcstar")):
        groups = cf.run_y0(wd, mode, its, "c06" + mode, history=False)
        groups = [dict(gr, recs=[dict(r, k="svocab") for r in gr["recs"]]) for gr in groups]
        vs, st, by_id = ic.judge(wd, groups, seeds=(1,), tag="tv" + mode)
        if mode == "star":
            st["distinct"] += g["distinct"] + g4["distinct"]
            st["generated"] += g["generated"] + g4["generated"]
        n = sum(1 for rid in vs if by_id[rid][1]["out"]["k"] == "expr")
        yield name, vs, by_id, None, st, {name: n}


def parts(wd, tier):
    rng = random.Random(660 + seed())
    items, gens = tc.problems(wd, tier, rng)
    groups = tc.run_y0(wd, items, "c06tr")
    vs, st, by_id = ic.judge(wd, groups, seeds=(1,))
    # only the vocabulary clause matters here; key records like trcommon.report does
    st["distinct"] += sum(g["distinct"] for g in gens)
    st["generated"] += sum(g["generated"] for g in gens)
    n = sum(1 for rid, v in vs.items() if by_id[rid][1]["out"]["k"] == "expr")
    yield "transport", vs, by_id, None, st, {"trso": n}
    yield from star_parts(wd, tier)

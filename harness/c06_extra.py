"""Transport (and later ID*/IDC*) parts of C06."""

from __future__ import annotations

import random

import idcommon as ic
import trcommon as tc
from common import seed


def parts(wd, tier):
    rng = random.Random(660 + seed())
    items, gens = tc.problems(wd, tier, rng)
    groups = tc.run_y0(wd, items, "c06tr")
    vs, st, by_id = ic.judge(wd, groups, seeds=(1,))
    # only the vocabulary clause matters here; key records like trcommon.report does
    st["distinct"] += sum(g["distinct"] for g in gens)
    st["generated"] += sum(g["generated"] for g in gens)
    n = sum(1 for rid, v in vs.items() if by_id[rid][1]["out"]["k"] == "expr")
    yield "transport", vs, by_id, None, st, {"trso": n}

"""Dump the repository's own example catalogue (y0.examples.examples) as numbered graphs: inputs only, no expected values.

usage: drive_examples.py <out.json> <max_nodes>
Nodes are numbered 1..n in a deterministic topological order (so that the families that assume a topological numbering
apply); cyclic graphs and graphs with more than max_nodes nodes are skipped and counted.  Queries: the example's own
example queries / identification inputs, as (treatments, outcomes, conditions) over the numbers.
"""

from __future__ import annotations

import json
import sys

import networkx as nx

from y0.examples import examples


def main() -> None:
    out, skipped = [], []
    mx = int(sys.argv[2])
    seen = set()
    for ex in examples:
        g = ex.graph
        nodes = sorted(g.nodes(), key=str)
        if not nx.is_directed_acyclic_graph(g.directed) or len(nodes) > mx:
            skipped.append(ex.name)
            continue
        dg = nx.DiGraph()
        dg.add_nodes_from(nodes)
        dg.add_edges_from(g.directed.edges())
        order = list(nx.lexicographical_topological_sort(dg, key=str))
        idx = {v: i + 1 for i, v in enumerate(order)}
        d = sorted([idx[u], idx[v]] for u, v in g.directed.edges())
        b = sorted(sorted([idx[u], idx[v]]) for u, v in g.undirected.edges())
        key = json.dumps([len(nodes), d, b])
        if key in seen:
            continue
        seen.add(key)
        qs = []
        for q in getattr(ex, "example_queries", None) or []:
            try:
                t = sorted(idx[v.get_base()] for v in q.treatments)
                o = sorted(idx[v.get_base()] for v in q.outcomes)
                c = sorted(idx[v.get_base()] for v in q.conditions)
            except KeyError:
                continue
            if t and o and not (set(t) & set(o)) and not (set(c) & (set(t) | set(o))):
                qs.append([t, o, c])
        out.append({"name": ex.name, "n": list(range(1, len(nodes) + 1)), "d": d, "b": b,
                    "names": {str(i): str(v) for v, i in idx.items()}, "queries": qs})
    json.dump({"graphs": out, "skipped": skipped}, open(sys.argv[1], "w"))


if __name__ == "__main__":
    main()

"""Driver for C07 / C08 / C18 (and the ID*/IDC* part of C06): run the real counterfactual code on TLC-generated events.

usage: drive_cf.py <mode: star|cstar|cg> <in.json> <out.json>
in: list of {"g", "gid", "evs": [event or [outcomes, conditions], ...]}; an event is a list of {"n","s","iv"} atoms.
Nothing is evaluated here: outcomes are serialised for TLC.
"""

from __future__ import annotations

import json
import sys

from ser import build_graph, de_var, exc_class, ser_expr, ser_var, var


def to_event(atoms):
    """{variable (with subscripts): value} as the y0 API wants it."""
    from y0.dsl import Variable

    ev = {}
    for a in atoms:
        key = de_var({"n": a["n"], "s": 0, "iv": a["iv"]})
        base = Variable(f"V{a['n']}")
        ev[key] = +base if a["s"] == 2 else -base
    return ev


def ser_event(ev):
    out = []
    for k, v in ev.items():
        r = ser_var(k)
        if v.name != k.name:
            raise ValueError(f"event value {v} does not belong to {k}")
        r["s"] = 2 if v.star else 1
        out.append(r)
    return sorted(out, key=lambda r: json.dumps(r, sort_keys=True))


def ser_out(fn):
    from y0.algorithm.identify import Unidentifiable

    try:
        e = fn()
    except Unidentifiable as exc:
        return {"k": "unident", "cls": exc_class(exc)}
    except Exception as exc:  # noqa: BLE001
        return {"k": "exc", "exc": exc_class(exc), "msg": str(exc)[:160]}
    try:
        return {"k": "expr", "e": ser_expr(e), "str": str(e)[:400]}
    except Exception as exc:  # noqa: BLE001
        return {"k": "expr", "unser": f"{exc_class(exc)}: {exc}"[:160], "str": str(e)[:400]}


def run_cg(graph, atoms):
    from y0.algorithm.identify.cg import make_counterfactual_graph

    try:
        cg, new_event = make_counterfactual_graph(graph, to_event(atoms))
    except Exception as exc:  # noqa: BLE001
        return {"k": "exc", "exc": exc_class(exc), "msg": str(exc)[:160]}
    if new_event is None:
        return {"k": "inconsistent"}
    try:
        nodes = sorted(cg.nodes(), key=str)
        pos = {n: i + 1 for i, n in enumerate(nodes)}
        return {"k": "graph", "nodes": [ser_var(n) for n in nodes],
                "d": sorted([pos[u], pos[v]] for u, v in cg.directed.edges()),
                "b": sorted(sorted([pos[u], pos[v]]) for u, v in cg.undirected.edges()),
                "ev": ser_event(new_event), "str": str(new_event)[:300]}
    except Exception as exc:  # noqa: BLE001
        return {"k": "exc", "exc": "Unserialisable" + exc_class(exc), "msg": str(exc)[:160]}


HISTORY = True


def call(mode, graph, ev):
    from y0.algorithm.identify import id_star, idc_star

    if mode == "star":
        return ser_out(lambda: id_star(graph, to_event(ev)))
    if mode == "cstar":
        return ser_out(lambda: idc_star(graph, to_event(ev[0]), to_event(ev[1])))
    return run_cg(graph, ev)


def history_pass(mode, item, recs):
    """The answer is a function of the graph's *value*: one graph object is queried with every event, then completed in
    place with its last edge (add_directed_edge / add_undirected_edge) and queried again; an object with the same value
    and the same insertion order that was never queried before the edge was added must give the same answers.  In mode
    cg the answers of the object with a history are also appended to `recs` (validated by TLC like any other record)."""
    g = item["g"]
    edges = [("d", e) for e in g["d"]] + [("b", e) for e in g["b"]]
    if not edges:
        return {"events": 0, "mismatch": []}
    k, e = edges[sum(map(ord, item["gid"])) % len(edges)]
    pre = {"n": g["n"], "d": [x for x in g["d"] if not (k == "d" and x == e)],
           "b": [x for x in g["b"] if not (k == "b" and x == e)]}

    def grow(gr):
        if k == "d":
            gr.add_directed_edge(var(e[0]), var(e[1]))
        else:
            gr.add_undirected_edge(var(e[0]), var(e[1]))
        return gr

    h = build_graph(pre, 0)
    for ev in item["evs"]:
        call(mode, h, ev)          # history: queries on the smaller graph (answers not used)
    grow(h)
    f = grow(build_graph(pre, 0))  # same value, same insertion order, no history
    mismatch = []
    for ei, ev in enumerate(item["evs"]):
        oh, of = call(mode, h, ev), call(mode, f, ev)
        if oh != of:
            mismatch.append({"ei": ei, "ev": ev, "with_history": oh, "without": of, "edge": [k, e]})
        if mode == "cg":
            recs.append({"id": f"{item['gid']}:{ei}:h", "k": "cg", "ev": ev, "out": oh})
    return {"events": len(item["evs"]), "mismatch": mismatch, "edge": [k, e]}


def main():
    from y0.algorithm.identify import id_star, idc_star

    mode, src, dst = sys.argv[1:4]
    global HISTORY
    HISTORY = "nohist" not in sys.argv[4:]
    groups = []
    for item in json.load(open(src)):
        g = item["g"]
        recs = []
        for ei, ev in enumerate(item["evs"]):
            graph = build_graph(g, ei % 2)
            rid = f"{item['gid']}:{ei}"
            if mode == "star":
                out = ser_out(lambda: id_star(graph, to_event(ev)))
                recs.append({"id": rid, "k": "star", "ev": ev, "out": out})
            elif mode == "cstar":
                out = ser_out(lambda: idc_star(graph, to_event(ev[0]), to_event(ev[1])))
                recs.append({"id": rid, "k": "cstar", "ev": ev[0], "cond": ev[1], "out": out})
            else:
                recs.append({"id": rid, "k": "cg", "ev": ev, "out": run_cg(graph, ev)})
        hist = history_pass(mode, item, recs) if HISTORY else {"events": 0, "mismatch": []}
        groups.append({"n": g["n"], "d": g["d"], "b": g["b"], "recs": recs, "gid": item["gid"], "hist": hist})
    json.dump(groups, open(dst, "w"))


if __name__ == "__main__":
    main()

"""C14: mixed-graph surgery operations meet their set-theoretic definitions.

(1) TLC model-checks GraphOps.tla (machine) against the algebraic laws of MixedGraph.tla.
(2) TLC generates behaviours (exhaustive depth 1 over all 512 mixed graphs on 3 nodes,
    random walks with an exhaustive last step on 3- and 5-node graphs).
(3) The behaviours are replayed through the real NxMixedGraph under several insertion
    orders; after every action the projected state must equal the spec's state.
"""

from __future__ import annotations

import hashlib
import json

from common import (NCPU, NSHARDS, shard_hashseed, cached, SPEC, MachineryError, Outcome, drive, run_parallel, seed,
                    spec_hash, tagged_lines, tlc, tlc_ok, tlc_violation, workdir)

PID = "C14"
EXTRA_OPS = {"get_district", "get_no_effect_on_outcomes", "get_intervened_ancestors", "is_a_fixable", "is_p_fixable"}


def _gen(cfg: str, wd, **kw):
    res = tlc("GraphOps.tla", SPEC / cfg, meta=wd / f"meta-{cfg}", **kw)
    v = tlc_violation(res)
    if v:
        raise MachineryError(f"design-level violation of {v} in GraphOps ({cfg}):\n" + res["out"][-2000:])
    if "Error:" in res["out"]:
        raise MachineryError(f"TLC error in {cfg}:\n" + res["out"][-2000:])
    behs = tagged_lines(res["out"], "BEH")
    return {"behs": behs, "generated": res["generated"], "distinct": res["distinct"]}


def _sample(behs: list, cap: int, salt: int) -> list:
    if len(behs) <= cap:
        return behs
    keyed = sorted(behs, key=lambda b: hashlib.sha256((str(salt) + json.dumps(b, sort_keys=True)).encode()).hexdigest())
    return keyed[:cap]


def _mc(wd):
    r = tlc("GraphOps.tla", SPEC / "GraphOps_MC_M3.cfg", workers=NCPU, meta=wd / "mc")
    v = tlc_violation(r)
    if v:
        raise MachineryError(f"GraphOps design check: {v} violated\n" + r["out"][-2000:])
    tlc_ok(r, "GraphOps MC")
    return {"generated": r["generated"], "distinct": r["distinct"]}


def warm() -> None:
    wd = workdir(PID + "-warm")
    cached("graphops-mc-m3", lambda: _mc(wd), module="GraphOps")
    cached("graphops-gen-m3", lambda: _gen("GraphOps_Gen_M3.cfg", wd, workers=1), module="GraphOps")
    cached("graphops-gen-m4c", lambda: _gen("GraphOps_Gen_M4c.cfg", wd, workers=1), module="GraphOps")


def run(tier: str) -> int:
    out = Outcome(PID, tier)
    wd = workdir(PID)
    s = seed()
    thorough = tier == "thorough"

    # (1) design-level model checking (depends only on the spec -> cached by spec hash)
    mcres, mc_cached = cached("graphops-mc-m3", lambda: _mc(wd), module="GraphOps")

    # (2) behaviours
    gen_m3, _ = cached("graphops-gen-m3", lambda: _gen("GraphOps_Gen_M3.cfg", wd, workers=1), module="GraphOps")
    nsim = 40 if not thorough else 400
    sim3 = _gen("GraphOps_Sim_M3.cfg", wd, workers=4, simulate=f"num={nsim}", depth=5, tlc_seed=1000 + s)
    sim5 = _gen("GraphOps_Sim_RND.cfg", wd, workers=8, simulate=f"num={max(4, nsim // 8)}", depth=6,
                tlc_seed=2000 + s)
    cap = 3000 if not thorough else 60000
    # cyclic 4-node graphs, directed-path operation only (the cyclic branch of get_nodes_in_directed_paths)
    gen_m4c, _ = cached("graphops-gen-m4c", lambda: _gen("GraphOps_Gen_M4c.cfg", wd, workers=1), module="GraphOps")
    behs = gen_m3["behs"] + _sample(sim3["behs"], cap, s) + _sample(sim5["behs"], cap, s) + \
        _sample(gen_m4c["behs"], 20000 if not thorough else 10 ** 7, s)

    # (3) replay through the real code, sharded
    n_orders = 3
    shards = [behs[i::NSHARDS] for i in range(NSHARDS)]
    jobs = []
    for i, sh in enumerate(shards):
        f = wd / f"beh{i}.json"
        f.write_text(json.dumps(sh))
        jobs.append((f, wd / f"res{i}.json", i))

    def one(job):
        drive("drive_graph.py", [str(job[0]), str(job[1]), str(n_orders)], hashseed=shard_hashseed(job[2]))
        return json.loads(job[1].read_text())

    results = run_parallel(one, jobs)
    diagnostics: list = []
    steps = sum(r["steps"] for r in results)
    ops: dict[str, int] = {}
    for r in results:
        for k, v in r["ops"].items():
            ops[k] = ops.get(k, 0) + v
        for f in r["fails"]:
            if f["op"] in EXTRA_OPS:   # documented helpers outside the list of C14: diagnostic only
                diagnostics.append({k: f[k] for k in ("op", "arg", "clause") if k in f})
                continue
            g0 = f["behaviour"][0]["g"]
            prefix = [(st["op"], st["arg"]) for st in f["behaviour"][1 : f["step"] + 1]]
            key = json.dumps({"g": g0, "ops": prefix}, sort_keys=True)
            sig = f["clause"] + (":" + f["exc"] if "exc" in f else "")
            out.fail(key, sig, f)
    # de-duplicate failures that differ only by insertion order
    seen, uniq = set(), []
    for f in out.failures:
        if (f["key"], f["sig"]) not in seen:
            seen.add((f["key"], f["sig"]))
            uniq.append(f)
    out.failures = uniq

    if diagnostics:
        print(f"DIAGNOSTIC property={PID} helper operations outside the property's list disagree with MixedGraph.tla: "
              f"{len(diagnostics)} steps, e.g. {diagnostics[0]}")
    nontrivial = sum(1 for b in behs if b[0]["g"]["d"] and b[0]["g"]["b"])
    coverage = {
        "states": mcres["distinct"] + gen_m3["distinct"] + sim3["generated"] + sim5["generated"],
        "transitions": mcres["generated"] + gen_m3["generated"] + sim3["generated"] + sim5["generated"],
        "traces_validated_against_impl": len(behs) * n_orders,
        "samples": [behs[0], behs[len(behs) // 2], behs[-1]],
        "exhaustive": True,
        "design_mc": {"cfg": "GraphOps_MC_M3.cfg", "cached": mc_cached, **mcres,
                      "invariants": ["TypeOK", "Laws", "NodesShrink", "MutatorsGrow"]},
        "behaviours": {"M3_depth1_exhaustive": len(gen_m3["behs"]),
                       "M3_walks_depth3": min(cap, len(sim3["behs"])),
                       "N5_walks_depth4": min(cap, len(sim5["behs"])),
                       "M4_cyclic_directed_paths": len(gen_m4c["behs"])},
        "replayed_steps": steps,
        "steps_per_operation": ops,
        "insertion_orders": n_orders,
        "diagnostic_operations": sorted(EXTRA_OPS), "diagnostic_failures": len(diagnostics),
        "distinct_nontrivial": nontrivial,
        "rule": "behaviour = initial mixed graph + operation sequence; non-trivial = initial graph has "
                "both directed and bidirected edges; exhaustive over all 512 mixed graphs on 3 nodes x "
                "all node subsets x all operations at depth 1, sampled walks beyond; walks interleave the in-place mutators "
                "(add_node, add_directed_edge, add_undirected_edge) with the operations on ONE live object",
    }
    return out.finish(
        "model_checking",
        coverage,
        ["expected states are the ones TLC computes from MixedGraph.tla; the driver only compares",
         "names: node i <-> Variable('Vi')", "walks beyond 3 nodes are sampled (seeded), not exhaustive"],
    )

"""Driver for C17: run the real Tian-Pearl c-factor routines on TLC-generated (G, T, C, topo).

usage: drive_tian.py <in.json> <out.json>
in: list of {"g", "gid", "qs": [[T, C, topo], ...]}; out: TV groups with records of kind "q".
"""

from __future__ import annotations

import json
import sys

import ser
from ser import build_graph, exc_class, num, ser_expr, var


def outcome(fn):
    try:
        e = fn()
    except Exception as exc:  # noqa: BLE001
        return None, {"k": "exc", "exc": exc_class(exc), "msg": str(exc)[:160]}
    if e is None:
        return None, {"k": "unident"}
    try:
        return e, {"k": "expr", "e": ser_expr(e), "str": str(e)[:300]}
    except Exception as exc:  # noqa: BLE001
        return e, {"k": "expr", "unser": f"{exc_class(exc)}: {exc}"[:160], "str": str(e)[:300]}


def main():
    from y0.algorithm.tian_id import (compute_ancestral_set_q_value, compute_c_factor,
                                      identify_district_variables)
    from y0.dsl import P

    groups = []
    for item in json.load(open(sys.argv[1])):
        g = item["g"]
        recs = []
        for qi, q in enumerate(item["qs"]):
            t, c, topo = q[0], q[1], q[2]
            rest_ancestral = len(q) > 3 and q[3]
            # every third query: names V<perm(i)> (alphabetical order unrelated to the numbering)
            ser.set_naming("permuted", len(groups) * 31 + qi) if qi % 3 == 2 else ser.set_naming("V")
            graph = build_graph(g, qi % 3)
            tv, cv, order = frozenset(var(i) for i in t), frozenset(var(i) for i in c), [var(i) for i in topo]
            nodes = [var(i) for i in g["n"]]
            rid = f"{item['gid']}:{qi}"
            # (1) c-factor of the district T from the observational joint (Lemma 1)
            qt, out = outcome(lambda: compute_c_factor(district=sorted(tv, key=str), subgraph_variables=nodes,
                                                       subgraph_probability=P(nodes), graph_topo=order))
            recs.append({"id": rid + ":cf", "k": "q", "s": t, "out": out})
            if qt is None:
                continue
            # (2) IDENTIFY(C, T, Q[T])
            qc, out = outcome(lambda: identify_district_variables(input_variables=cv, input_district=tv,
                                                                  district_probability=qt, graph=graph, topo=order))
            recs.append({"id": rid + ":id", "k": "q", "s": c, "out": out})
            # (2b) another expression for Q[T]: when V \ T is ancestral, the conditional probability P(T | V \ T)
            #      (TLC validates that it denotes Q[T] - record cfp - before its use in IDENTIFY is judged - record idp)
            if rest_ancestral:
                rest = [v for v in nodes if v not in tv]
                from y0.dsl import Distribution, Probability
                qt2 = Probability(Distribution(children=tuple(sorted(tv, key=str)), parents=tuple(sorted(rest, key=str))))
                recs.append({"id": rid + ":cfp", "k": "q", "s": t, "out": {"k": "expr", "e": ser_expr(qt2), "str": str(qt2)}})
                _, out = outcome(lambda: identify_district_variables(input_variables=cv, input_district=tv,
                                                                     district_probability=qt2, graph=graph, topo=order))
                recs.append({"id": rid + ":idp", "k": "q", "s": c, "out": out})
            # (3) Lemma 3 on the ancestral set of C within T
            anc = frozenset(graph.subgraph(tv).ancestors_inclusive(cv))
            if anc != tv:
                _, out = outcome(lambda: compute_ancestral_set_q_value(ancestral_set=anc, subgraph_variables=tv,
                                                                       subgraph_probability=qt, graph_topo=order))
                recs.append({"id": rid + ":an", "k": "q", "s": sorted(num(v) for v in anc), "out": out})
                # (4) Lemma 4: c-factor of the district of C inside G[anc] from Q[anc]
                if out["k"] == "expr" and "e" in out:
                    qa = compute_ancestral_set_q_value(ancestral_set=anc, subgraph_variables=tv,
                                                       subgraph_probability=qt, graph_topo=order)
                    sub = graph.subgraph(anc)
                    tp = [d for d in sub.districts() if cv <= d]
                    if tp:
                        _, out = outcome(lambda: compute_c_factor(district=sorted(tp[0], key=str), subgraph_variables=anc,
                                                                  subgraph_probability=qa, graph_topo=order))
                        recs.append({"id": rid + ":l4", "k": "q", "s": sorted(num(v) for v in tp[0]), "out": out})
        ser.set_naming("V")
        groups.append({"n": g["n"], "d": g["d"], "b": g["b"], "recs": recs})
    json.dump(groups, open(sys.argv[2], "w"))


if __name__ == "__main__":
    main()

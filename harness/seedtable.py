"""usage: seedtable.py <round letter>  -- print the DESIGN.md table rows for the seeds of one round from their meta.json"""
import glob, json, sys
r = sys.argv[1]
print("| seed | change (start of the author's summary) | result |\n|---|---|---|")
for d in sorted(glob.glob(f"/verif/seeded/C??-{r}")):
    import os
    m = json.load(open(d + ("/meta.json" if os.path.exists(d + "/meta.json") else "/meta.agent.json")))
    name = d.rsplit("/", 1)[1]
    summ = (m.get("summary") or "").replace("\n", " ").replace("|", "/")[:175]
    print(f"| {name} | {summ} | {(m.get('checks_run') or 'pending').replace('|', '/')} |")

"""C07: ID* estimands equal the probability of the counterfactual event.

Family F of Sem.tla gives P(event); the returned expression is read as the statement says (unmarked occurrences of an
outcome variable take the event's value; any reading the event permits is accepted, CF.tla Readings) and must equal
P(event) on every base assignment of generic F-models; Zero only for impossible events; Unidentifiable is accepted.
The input family is fixed and deterministic because the implementation has known unrepaired defects (DESIGN 5.2/5.3):
their failing inputs are listed by (input, semantic signature) in known_findings_C07.json.
"""

from __future__ import annotations

import cfcommon as cf
from check_c18 import cf_mc
from common import Outcome, workdir

PID = "C07"


def warm():
    wd = workdir("c07-warm")
    cf_mc(wd)
    cf.gen(wd, "A3", 3, 2, 2, False)


def records(wd, tier):
    items, g = cf.event_family(wd, tier)
    groups = cf.run_y0(wd, "star", items, "c07")
    vs, st, by_id = cf.judge(wd, groups, seeds=(1, 2))
    return vs, st, by_id, g


def run(tier: str) -> int:
    out = Outcome(PID, tier)
    wd = workdir(PID)
    mc = cf_mc(wd)[0]
    vs, st, by_id, g = records(wd, tier)
    cf.report(out, vs, by_id, skip={"vocabulary"})
    cov = cf.coverage(vs, by_id, st, g,
                      "one record = id_star(G, event) for a TLC-generated conjunction of 1-2 atoms over a 3-node ADMG (fixed "
                      "deterministic family: every single atom, a graph-dependent slice of all pairs); the returned expression, read "
                      "with the event's values, is evaluated by TLC in functional models with shared noise on all base assignments "
                      "and compared with P(event); non-trivial = distinct (graph, event) with an answer on a graph with a bidirected edge",
                      {"design_mc": [mc]})
    cov["states"] += mc["distinct"]
    cov["transitions"] += mc["generated"]
    return out.finish("model_checking", cov, [
        "fixed family (independent of VERIF_SEED) so that the listed known findings cannot hide a new violation: a listed input failing with another signature, or any unlisted input failing, is a violation",
        "family F: binary variables, 3-valued noise, one binary latent per bidirected edge, GF(32749); seeds fixed (1, 2) because signatures depend on them"])

"""C07: ID* estimands equal the probability of the counterfactual event.

Family F of Sem.tla gives P(event); the returned expression is read as the statement says (unmarked occurrences of an
outcome variable take the event's value; any reading the event permits is accepted, CF.tla Readings) and must equal
P(event) on every base assignment of generic F-models; Zero only for impossible events; Unidentifiable is accepted.
The input family is fixed and deterministic because the implementation has known unrepaired defects (DESIGN 5.2/5.3):
their failing inputs are listed by (input, semantic signature) in known_findings_C07.json.
"""

from __future__ import annotations

import cfcommon as cf
from check_c18 import cf_mc
from common import NCPU, MachineryError, Outcome, cached, tlc, tlc_ok, tlc_violation, workdir

PID = "C07"


IDS_INVS = ["Sound", "Vocab"]


def idstar_mc(wd, slice_=60):
    """Design level: the reference ID* (IDStar.tla: make-cg, lines 1-9, sound partial version) answers only with terms
    that denote P(event) in the functional family F, on every ordered 3-node ADMG x (all single atoms, a slice of pairs)."""
    def go():
        cfg = wd / "IDStarMachine.cfg"
        cfg.write_text(f'SPECIFICATION Spec\nCONSTANTS\n  Family = "A3o"\n  RndN = 5\n  RndK = 4\n  Seeds = {{1, 2}}\n  MaxAtoms = 2\n'
                       f"  Slice = {slice_}\n  Check = TRUE\n  Mode = \"star\"\n" + "".join(f"INVARIANT {i}\n" for i in IDS_INVS) + "CHECK_DEADLOCK FALSE\n")
        r = tlc("IDStarMachine.tla", str(cfg), workers=NCPU, meta=wd / "idsmc", xmx="6g", timeout=5400)
        v = tlc_violation(r)
        if v:
            raise MachineryError(f"IDStarMachine: {v} violated\n" + r["out"][-2500:])
        tlc_ok(r, "IDStarMachine")
        return {"family": "A3o", "pair_slice": slice_, "generated": r["generated"], "distinct": r["distinct"], "invariants": IDS_INVS}
    return cached(f"ids-mc-{slice_}", go, module="IDStarMachine")


def warm():
    wd = workdir("c07-warm")
    cf_mc(wd)
    idstar_mc(wd)
    cf.gen(wd, "A3", 3, 3, 2, False)
    cf.gen(wd, "A3", 3, 2, 2, True)


def records(wd, tier):
    items, g = cf.event_family(wd, tier, three_world=8 if tier == "quick" else 40, reflexive=12 if tier == "quick" else 40)
    groups = cf.run_y0(wd, "star", items, "c07")
    vs, st, by_id = cf.judge(wd, groups, seeds=(1, 2))
    return vs, st, by_id, g, groups


def run(tier: str) -> int:
    out = Outcome(PID, tier)
    wd = workdir(PID)
    mc = cf_mc(wd)[0]
    mc2 = idstar_mc(wd, 60 if tier == "quick" else 20)[0]
    vs, st, by_id, g, groups = records(wd, tier)
    cf.report(out, vs, by_id, skip={"vocabulary"})
    hist = cf.report_history(out, groups)
    # diagnostic cross-tabulation with the reference ID*: where y0 is wrong, does the reference answer or refuse?
    xtab = {}
    for i, v in vs.items():
        k = f"y0:{v['clause']}/ref:{v.get('ref')}"
        xtab[k] = xtab.get(k, 0) + 1
    cov = cf.coverage(vs, by_id, st, g,
                      "one record = id_star(G, event) for a TLC-generated conjunction of 1-3 atoms over a 3-node ADMG (fixed "
                      "deterministic family: every single atom, a graph-dependent slice of all pairs, a graph-dependent slice of "
                      "the three-atom events that span three different worlds, every single atom with a reflexive subscript and a slice of "
                      "the pairs with one such atom); the returned expression, read "
                      "with the event's values, is evaluated by TLC in functional models with shared noise on all base assignments "
                      "and compared with P(event); non-trivial = distinct (graph, event) with an answer on a graph with a bidirected edge",
                      {"design_mc": [mc, mc2], "y0_outcome_vs_reference_idstar": xtab})
    cov.update(hist)
    cov["states"] += mc["distinct"] + mc2["distinct"]
    cov["transitions"] += mc["generated"] + mc2["generated"]
    return out.finish("model_checking", cov, [
        "fixed family (independent of VERIF_SEED) so that the listed known findings cannot hide a new violation: a listed input failing with another signature, or any unlisted input failing, is a violation",
        "family F: binary variables, 3-valued noise, one binary latent per bidirected edge, GF(32749); seeds fixed (1, 2) because signatures depend on them"])

"""Driver for C04 / C15 / C20 (replay direction): TLC's verdict tables vs the real separation code.

usage: drive_sep.py <mode: dsep|sigma|ci> <tables.json> <out.json> <n_orders>
Expected verdicts are the tables TLC printed from Separation.tla; this script only compares.
"""

from __future__ import annotations

import itertools as itt
import json
import random
import sys

from ser import build_graph, num, var


def subsets(xs):
    xs = sorted(xs)
    for r in range(len(xs) + 1):
        yield from itt.combinations(xs, r)


def form(conds, k):
    """The same conditioning set in the container types the signature (Iterable[Variable] | None) admits."""
    k %= 6
    if k == 0:
        return list(conds)
    if k == 1:
        return tuple(conds)
    if k == 2:
        return frozenset(conds)
    if k == 3:
        return iter(list(conds))          # one-shot iterator
    if k == 4:
        return (x for x in list(conds))   # generator
    return None if not conds else set(conds)


def key(a, b, c):
    return (min(a, b), max(a, b), tuple(sorted(c)))


def grow(graph, edge):
    """The spec's Grow action on the real object: add one edge in place."""
    if edge["k"] == "d":
        graph.add_directed_edge(var(edge["e"][0]), var(edge["e"][1]))
    else:
        graph.add_undirected_edge(var(edge["e"][0]), var(edge["e"][1]))


def history(rec, order):
    """[(graph record to expect, edge to add first or None)]: order 1 replays a Grow step of SepMachine on ONE object
    (predecessor graph queried completely, edge added, grown graph queried) when the predecessor's table is known."""
    if order == 1 and rec.get("prev"):
        return [(rec["prev"], None), (rec, rec["prev"]["edge"])]
    return [(rec, None)]


def run_dsep(rec, order, fails, stats):
    from y0.algorithm.conditional_independencies import are_d_separated

    graph = None
    for step, (cur, edge) in enumerate(history(rec, order)):
        if graph is None:
            graph = build_graph(cur["g"], order)
        else:
            grow(graph, edge)
            stats["grow_steps"] = stats.get("grow_steps", 0) + 1
        g = cur["g"]
        sep = {(t[0], t[1], tuple(sorted(t[2]))) for t in cur["sep"]}
        rng = random.Random(order)
        for a, b in itt.permutations(sorted(g["n"]), 2):
            for c in subsets(set(g["n"]) - {a, b}):
                stats["calls"] += 1
                conds = [var(i) for i in c]
                if order:  # duplicates / order of conditions must not matter
                    rng.shuffle(conds)
                    conds = conds + conds[:1]
                exp = key(a, b, c) in sep
                base = {"g": g, "a": a, "b": b, "c": list(c), "order": order}
                if edge is not None:
                    base["after_adding"] = edge
                try:
                    j = are_d_separated(graph, var(a), var(b), conditions=form(conds, stats["calls"]))
                except Exception as exc:  # noqa: BLE001
                    fails.append({**base, "clause": "raised", "exc": type(exc).__name__, "msg": str(exc)[:200]})
                    continue
                got = bool(j)
                if exp:
                    stats["separated"] += 1
                if got != exp:
                    fails.append({**base, "clause": "verdict", "expect": exp, "got": got})
                    continue
                ok_fields = (
                    j.separated == got
                    and str(j.left) < str(j.right)
                    and {j.left, j.right} == {var(a), var(b)}
                    and isinstance(j.conditions, tuple)
                    and list(j.conditions) == sorted(set(var(i) for i in c), key=str)
                    and j.is_canonical
                )
                if not ok_fields:
                    fails.append({**base, "clause": "fields", "judgement": repr(j)})


def run_sigma(rec, order, fails, stats):
    graph = None
    for cur, edge in history(rec, order):
        if graph is None:
            graph = build_graph(cur["g"], order)
        else:
            grow(graph, edge)
            stats["grow_steps"] = stats.get("grow_steps", 0) + 1
        run_sigma_on(graph, cur, edge, order, fails, stats)


def run_sigma_on(graph, rec, edge, order, fails, stats):
    from y0.algorithm.separation.sigma_separation import are_sigma_separated

    g = rec["g"]
    acyclic = rec["acyclic"]
    sep = {(t[0], t[1], tuple(sorted(t[2]))) for t in rec["sep"]}
    sig = {(t[0], t[1], tuple(sorted(t[2]))) for t in rec["sig"]}
    adj = {tuple(p) for p in rec["adj"]}
    dev = {(t[0], t[1], tuple(sorted(t[2]))) for t in rec.get("dev", [])}
    nodes = sorted(g["n"])
    for a, b in itt.combinations(nodes, 2):
        for c in subsets(set(nodes) - {a, b}):
            stats["calls"] += 2
            conds = [var(i) for i in c]
            try:
                ab = bool(are_sigma_separated(graph, var(a), var(b), conditions=form(conds, stats["calls"] // 2)))
                ba = bool(are_sigma_separated(graph, var(b), var(a), conditions=form(list(reversed(conds)), stats["calls"] // 2 + 1)))
            except Exception as exc:  # noqa: BLE001
                fails.append({"g": g, "a": a, "b": b, "c": list(c), "order": order, "clause": "raised",
                              "exc": type(exc).__name__, "msg": str(exc)[:200]})
                continue
            base = {"g": g, "a": a, "b": b, "c": list(c), "order": order, "ab": ab, "ba": ba,
                    **({"after_adding": edge} if edge is not None else {}),
                    "acyclic": acyclic, "ideal": key(a, b, c) in sig, "dev": key(a, b, c) in dev}
            if ab != ba:
                fails.append({**base, "clause": "asymmetric"})
            elif (a, b) in adj and ab:
                fails.append({**base, "clause": "adjacent-separated"})
            elif acyclic and ab != (key(a, b, c) in sep):
                fails.append({**base, "clause": "verdict", "expect": key(a, b, c) in sep})
            if not acyclic:
                stats["cyclic_calls"] += 2
                if ab != (key(a, b, c) in sig):
                    stats["cyclic_diagnostic_disagreements"] += 1


def run_ci(rec, order, fails, stats):
    from y0.algorithm import conditional_independencies as ci

    graph = None
    if len(rec["g"]["n"]) >= 7 and order > 0:
        return   # 7-8 node catalogue graphs: the enumeration is exponential, one insertion order only
    for cur, edge in history(rec, order):
        if graph is None:
            graph = build_graph(cur["g"], order)
        else:
            grow(graph, edge)
            stats["grow_steps"] = stats.get("grow_steps", 0) + 1
        run_ci_on(ci, graph, cur, edge, order, fails, stats)


def run_ci_on(ci, graph, rec, edge, order, fails, stats):
    g = rec["g"]
    sep = {(t[0], t[1], tuple(sorted(t[2]))) for t in rec["sep"]}
    minsize = {(t[0], t[1]): t[2] for t in rec["min"]}
    n = len(g["n"])
    for k in ([None, 0, 1, 2, 3, n, n + 1] if n < 7 else [None, 2, 3]):
        for pname, policy in (("topological", None), ("len_lex", ci._len_lex)):
            stats["calls"] += 1
            base = {"g": g, "k": k, "policy": pname, "order": order}
            if edge is not None:
                base["after_adding"] = edge
            try:
                res = ci.get_conditional_independencies(graph, max_conditions=k, policy=policy)
            except Exception as exc:  # noqa: BLE001
                fails.append({**base, "clause": "raised", "exc": type(exc).__name__, "msg": str(exc)[:200]})
                continue
            pairs = {}
            bad = None
            for j in res:
                stats["judgements"] += 1
                a, b = num(j.left), num(j.right)
                c = tuple(sorted(num(x) for x in j.conditions))
                p = (min(a, b), max(a, b))
                if p in pairs:
                    bad = {"clause": "duplicate-pair", "pair": p}
                    break
                pairs[p] = c
                if (p[0], p[1], c) not in sep:
                    bad = {"clause": "not-a-separation", "pair": p, "c": c}
                    break
                if not (j.separated and j.is_canonical and str(j.left) < str(j.right)
                        and list(j.conditions) == sorted(set(j.conditions), key=str)):
                    bad = {"clause": "not-canonical", "judgement": repr(j)}
                    break
                if len(c) != minsize[p]:
                    bad = {"clause": "not-minimum-size", "pair": p, "c": c, "min": minsize[p]}
                    break
            if bad is None:
                # the size limit: the statement does not fix whether it is inclusive; accept both
                hi = 99 if k is None else k
                lo = 99 if k is None else k - 1
                must = {p for p, m in minsize.items() if m != 99 and (k is None or m <= lo)}
                may = {p for p, m in minsize.items() if m != 99 and (k is None or m <= hi)}
                got = set(pairs)
                if not got <= may:
                    bad = {"clause": "pair-outside-limit", "extra": sorted(got - may)}
                elif not must <= got:
                    bad = {"clause": "missing-pair", "missing": sorted(must - got)}
            if bad:
                fails.append({**base, **bad})


def main():
    mode, src, dst, n_orders = sys.argv[1], sys.argv[2], sys.argv[3], int(sys.argv[4])
    recs = json.load(open(src))
    fails, stats = [], {"calls": 0, "separated": 0, "judgements": 0, "cyclic_calls": 0,
                        "cyclic_diagnostic_disagreements": 0, "graphs": len(recs)}
    fn = {"dsep": run_dsep, "sigma": run_sigma, "ci": run_ci}[mode]
    import ser
    for rec in recs:
        for order in range(n_orders):
            # order 2: observed nodes carry the names the library gives to latent parents (u_0, u_1, ...)
            ser.set_naming("latent-like" if order == 2 else "V")
            fn(rec, order, fails, stats)
    ser.set_naming("V")
    json.dump({"stats": stats, "fails": fails}, open(dst, "w"))


if __name__ == "__main__":
    main()

#!/bin/sh
# usage: seedverify.sh <worktree> <name>   -- confirm a seeded change in its scratch worktree, then keep it under /verif/seeded/<name>
# (change applied in the worktree; _scratch/{patch.diff,demo.py,meta.json} present)
set -u
WT=$1; NAME=$2
cd "$WT" || exit 2
git diff -- src > _scratch/patch.diff
export PYTHONPATH=$WT/src
/venv/bin/python _scratch/demo.py >/tmp/sv.$$ 2>&1; RC_WITH=$?
/venv/bin/python -m pytest -q -p no:cacheprovider --timeout=900 tests 2>&1 | tail -1 > /tmp/svt.$$
git checkout -- src   # (git stash is shared between worktrees of one repository: never use it here)
/venv/bin/python _scratch/demo.py >/tmp/sv2.$$ 2>&1; RC_WITHOUT=$?
git apply _scratch/patch.diff
echo "demo with change rc=$RC_WITH; without rc=$RC_WITHOUT; tests: $(cat /tmp/svt.$$)"
if [ $RC_WITH -ne 0 ] && [ $RC_WITHOUT -eq 0 ] && grep -q "387 passed" /tmp/svt.$$; then
  mkdir -p /verif/seeded/$NAME
  cp _scratch/patch.diff _scratch/demo.py /verif/seeded/$NAME/
  cp _scratch/meta.json /verif/seeded/$NAME/meta.agent.json
  echo CONFIRMED
else
  echo NOT-CONFIRMED; tail -5 /tmp/sv.$$ /tmp/sv2.$$
fi
rm -f /tmp/sv.$$ /tmp/sv2.$$ /tmp/svt.$$

"""C19: counterfactual event simplification and factorisation preserve probability.

minimize_counterfactual (pointwise the same random variable, well formed), simplify (same probability, 'impossible'
only for impossible events), get_ancestors_of_counterfactual (exactly Definition 2.1, CF.tla AnCtf) and
do_counterfactual_factor_factorization (sum-product, read with the returned event, equals P(query)) are run on
TLC-generated variables / events over 3-node ADMGs, including reflexive subscripts, irrelevant subscripts and repeated
variables, and validated by TLC in the functional model family F.  Fixed deterministic family; the known defects of
simplify (reflexive atoms) and of the factorisation (subscript values) are listed by (input, signature).
"""

from __future__ import annotations

import json

import cfcommon as cf
from check_c18 import cf_mc
from common import NCPU, Outcome, drive, run_parallel, workdir

PID = "C19"


def warm():
    wd = workdir("c19-warm")
    cf.gen(wd, "A3", 3, 2, 2, True)
    cf.gen(wd, "A4o", 4, 2, 2, False)


def records(wd, tier):
    g = cf.gen(wd, "A3", 3, 2, 2, True)[0]
    graphs = g["graphs"] if tier == "thorough" else g["graphs"][::2]
    singles = [e for e in g["events"] if len(e) == 1]
    pairs = [e for e in g["events"] if len(e) == 2]
    vars_, seen = [], set()
    for e in singles:
        k = json.dumps([e[0]["n"], e[0]["iv"]])
        if k not in seen:
            seen.add(k)
            vars_.append({"n": e[0]["n"], "iv": e[0]["iv"]})
    step = 60 if tier == "quick" else 30
    items = []
    for gi, gr in enumerate(graphs):
        evs = singles + pairs[gi % step:: step]
        # repeated variables: the same atom twice, and the same variable with both values (impossible)
        a = singles[gi % len(singles)][0]
        evs = evs + [[a, a], [a, dict(a, s=3 - a["s"])]]
        # ancestral components (Definition 4.2): W* = the variables of a two-atom event, X* = its second variable
        cps = [[[p[0], p[1]], [p[1]]] for p in pairs[(gi * 3) % 41:: 41] if (p[0]["n"], p[0]["iv"]) != (p[1]["n"], p[1]["iv"])]
        cps += [[[p[0], p[1]], [p[0], p[1]]] for p in pairs[(gi * 5) % 211:: 211]]
        if tier == "quick":
            cps = cps[::3]   # a sub-family of the thorough one, so that the known-findings table stays valid
        items.append({"g": gr, "gid": f"A3-{gi}", "vars": vars_, "evs": evs, "comps": cps})
    # ancestral components on 4-node graphs: W* = all four nodes (four ancestral sets to merge, no vertex outside them),
    # X* empty or one node, under six node / edge insertion orders (the merge follows the edge iteration order)
    g4 = cf.gen(wd, "A4o", 4, 2, 2, False)[0]
    pool = [gr for gr in g4["graphs"] if len(gr["b"]) >= 3]
    pool = pool[::8] if tier == "quick" else pool[::2]

    def pv(n):
        return {"n": n, "iv": []}
    for gi, gr in enumerate(pool):
        allw = [pv(1), pv(2), pv(3), pv(4)]
        cps = [[allw, []]] * 6 + [[allw, [pv(1 + (gi + j) % 4)]] for j in range(6)]
        items.append({"g": gr, "gid": f"A4c-{gi}", "vars": [], "evs": [], "comps": cps, "comp_orders": 6})
    # graphs without directed edges: every ancestral set is a singleton, so all the merging is done by the bidirected
    # stage (four sets, chains of merges); twelve insertion orders each
    for gi, gr in enumerate([x for x in g4["graphs"] if not x["d"] and len(x["b"]) >= 2]):
        allw = [pv(1), pv(2), pv(3), pv(4)]
        items.append({"g": gr, "gid": f"A4b-{gi}", "vars": [], "evs": [], "comps": [[allw, []]] * 12, "comp_orders": 12})
    shards = [items[i::NCPU] for i in range(NCPU)]
    jobs = []
    for i, sh in enumerate(shards):
        if sh:
            f = wd / f"c19-in{i}.json"
            f.write_text(json.dumps(sh))
            jobs.append((f, wd / f"c19-out{i}.json"))

    def one(job):
        drive("drive_ctf.py", [str(job[0]), str(job[1])])
        return json.loads(job[1].read_text())

    groups = [x for r in run_parallel(one, jobs) for x in r]
    for gr in groups:  # failure keys name the routine
        for r in gr["recs"]:
            if r["k"] == "comp":
                r["ev"] = [dict(v, s=1) for v in r["w"]]
                r["cond"] = [dict(v, s=1) for v in r["x"]]
            elif "ev" not in r:
                r["ev"] = [dict(r["v"], s=1)]
            r["routine"] = r["k"]
    vs, st, by_id = cf.judge(wd, groups, seeds=(1, 2))
    return vs, st, by_id, g


def run(tier: str) -> int:
    out = Outcome(PID, tier)
    wd = workdir(PID)
    mc = cf_mc(wd)[0]
    vs, st, by_id, g = records(wd, tier)
    cf.report(out, vs, by_id)
    per = {}
    for i, v in vs.items():
        if v["ok"]:
            k = by_id[i][1]["routine"]
            per[k] = per.get(k, 0) + 1
    cov = cf.coverage(vs, by_id, st, g,
                      "one record = one call of minimize_counterfactual / get_ancestors_of_counterfactual (57 variables per graph: "
                      "every node under every <= 2 signed subscripts, reflexive ones included) or simplify / "
                      "do_counterfactual_factor_factorization (all single atoms, a graph-dependent slice of all pairs, repeated "
                      "variables) over 3-node ADMGs; TLC compares random variables pointwise over all noise configurations, event "
                      "probabilities on all base assignments, and ancestor sets with Definition 2.1; non-trivial = distinct accepted "
                      "input on a graph with a bidirected edge", {"design_mc": [mc], "accepted_per_routine": per})
    cov["states"] += mc["distinct"]
    cov["transitions"] += mc["generated"]
    return out.finish("model_checking", cov, [
        "get_ancestral_components is compared with a transcription of Definition 4.2 (CF.tla AncestralComponents) for W* = the two variables of an event, X* = one or both of them",
        "fixed family (independent of VERIF_SEED); known findings are listed by (routine, input, semantic signature)"])

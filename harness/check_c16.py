"""C16: LV-DAG conversion round-trips; Evans simplification keeps the observed model.

Design level: LVMachine.tla (Evans' four rules as actions, any order) is model-checked by TLC: the latent projection
is invariant, observed nodes are kept, a fully simplified DAG reads as the projection of the start, and m-separation in
the projection equals d-separation in the DAG.  Conformance (replay direction): TLC prints every tagged DAG of the
family with its Projection; simplify_latent_dag / evans_simplify / the round trip are replayed and compared.
"""

from __future__ import annotations

import json

from common import NCPU, NSHARDS, shard_hashseed, MachineryError, Outcome, cached, drive, run_parallel, seed, tagged_lines, tlc, tlc_ok, tlc_violation, workdir

PID = "C16"
INVS = ["ProjectionInvariant", "ObservedKept", "FinalReadsProjection", "SepFaithful"]


def _cfg(wd, family, invs, checksep, rndk=8):
    f = wd / f"LV_{family}_{len(invs)}_{int(checksep)}.cfg"
    f.write_text(f'SPECIFICATION Spec\nCONSTANTS\n  Family = "{family}"\n  RndN = 5\n  RndK = {rndk}\n'
                 f"  CheckSep = {'TRUE' if checksep else 'FALSE'}\n" + "".join(f"INVARIANT {i}\n" for i in invs)
                 + "CHECK_DEADLOCK FALSE\n")
    return str(f)


def mc(wd, family):
    def go():
        r = tlc("LVMachine.tla", _cfg(wd, family, INVS, True), workers=NCPU, meta=wd / f"lvmc{family}")
        v = tlc_violation(r)
        if v:
            raise MachineryError(f"LVMachine design check ({family}): {v} violated\n" + r["out"][-2500:])
        tlc_ok(r, f"LVMachine MC {family}")
        return {"family": family, "generated": r["generated"], "distinct": r["distinct"], "invariants": INVS}
    return cached(f"lv-mc-{family}", go, module="LVMachine")


def gen(wd, family, rnd_seed=None, rndk=8):
    def go():
        r = tlc("LVMachine.tla", _cfg(wd, family, ["EmitStart"], False, rndk), workers=NCPU, meta=wd / f"lvgen{family}",
                tlc_seed=rnd_seed)
        tlc_ok(r, f"LVMachine gen {family}")
        recs = tagged_lines(r["out"], "LV")
        recs.sort(key=lambda x: json.dumps(x, sort_keys=True))
        for x in recs:
            x["n"] = sorted(x["n"]); x["lat"] = sorted(x["lat"]); x["d"] = sorted(list(e) for e in x["d"])  # noqa: E702
        return {"recs": recs, "generated": r["generated"], "distinct": r["distinct"]}
    if rnd_seed is not None:
        return go(), False
    return cached(f"lv-gen-{family}", go, module="LVMachine")


def warm():
    wd = workdir("c16-warm")
    for f in ("T3", "T4", "G3"):
        mc(wd, f)
    for f in ("T3", "T4", "T5", "G3", "G4"):
        gen(wd, f)


def replay(wd, mode, recs):
    shards = [recs[i::NSHARDS] for i in range(NSHARDS)]
    jobs = []
    for i, sh in enumerate(shards):
        if sh:
            f = wd / f"{mode}-in{i}.json"
            f.write_text(json.dumps(sh))
            jobs.append((f, wd / f"{mode}-out{i}.json", i))

    def one(job):
        drive("drive_lv.py", [mode, str(job[0]), str(job[1])], hashseed=shard_hashseed(job[2]))
        return json.loads(job[1].read_text())

    fails, calls = [], 0
    for r in run_parallel(one, jobs):
        fails += r["fails"]
        calls += r["stats"]["calls"]
    return fails, calls


def run(tier: str) -> int:
    out = Outcome(PID, tier)
    wd = workdir(PID)
    # (G4 as a start family has 43 million reachable states: it is used as a generator only)
    mcs = [mc(wd, f)[0] for f in (("T3", "T4", "G3") if tier == "quick" else ("T3", "T4", "T5", "G3"))]
    gens = {f: gen(wd, f)[0] for f in ("T3", "T4", "T5", "G3", "G4")}
    gens["T5r"] = gen(wd, "T5r", rnd_seed=160 + seed(), rndk=10 if tier == "quick" else 40)[0]
    if tier == "thorough":
        gens["T6r"] = gen(wd, "T6r", rnd_seed=161 + seed(), rndk=30)[0]
    total_calls = 0
    n_recs = 0
    for mode, fams in (("simplify", [f for f in gens if f.startswith("T")]), ("evans", ["G3", "G4"]), ("roundtrip", ["G3", "G4"])):
        recs = [r for f in fams for r in gens[f]["recs"]]
        n_recs += len(recs)
        fails, calls = replay(wd, mode, recs)
        total_calls += calls
        seen = set()
        for f in fails:
            key = json.dumps({"mode": mode, "input": f.get("g") or {k: f["rec"][k] for k in ("n", "d", "lat")},
                              "latents": f.get("latents")}, sort_keys=True)
            sig = f["clause"] + (":" + f["exc"] if "exc" in f else "")
            if (key, sig) not in seen:
                seen.add((key, sig))
                out.fail(key, sig, f)
    t4 = gens["T4"]["recs"]
    cov = {
        "states": sum(m["distinct"] for m in mcs) + sum(g["distinct"] for g in gens.values()),
        "transitions": sum(m["generated"] for m in mcs) + sum(g["generated"] for g in gens.values()),
        "traces_validated_against_impl": total_calls,
        "inputs": n_recs,
        "distinct_nontrivial": sum(1 for f in gens for r in gens[f]["recs"] if r["lat"] and r["proj"]["b"]),
        "rule": "one record = a tagged DAG (all with <= 5 topologically numbered nodes, every subset latent; seeded 5-node with "
                "other numberings; thorough: seeded 6-node) or an ADMG with extra latent nodes (all 3-node, all ordered 4-node), with the latent projection TLC "
                "computed by its path definition; simplify_latent_dag (2 insertion orders; observed nodes kept, idempotent, "
                "read-off ADMG = projection), evans_simplify(G, latents=L) and the ADMG -> LV-DAG -> ADMG round trip (3 insertion "
                "orders) are replayed; non-trivial = latent present and projection has a bidirected edge",
        "samples": [t4[len(t4) // 3], gens["G3"]["recs"][len(gens["G3"]["recs"]) // 2]],
        "exhaustive": True,
        "design_mc": mcs,
    }
    return out.finish("model_checking", cov, [
        "expected projections come from LVDag.tla Projection (path definition), model-checked invariant under every order of Evans' rules and faithful for separation",
        "the consequence for identifiability verdicts follows from C02's oracle being a function of the ADMG; taheri_design is not replayed yet"])

"""Shared plumbing: running TLC, sharding, caches, evidence files, known findings.

Nothing in here knows anything about causal inference: the oracle is always the
TLA+ text under /verif/spec; Python drives y0, serialises, shards and collects.
"""

from __future__ import annotations

import atexit
import concurrent.futures as cf
import hashlib
import json
import os
import re
import shutil
import subprocess
import sys
import time
from pathlib import Path

ROOT = Path(__file__).resolve().parent.parent
SPEC = ROOT / "spec"
WORK = ROOT / ".work"
CACHE = ROOT / ".cache"
# (the two directories can be redirected for experiments on scratch copies of the repository, see harness/seedrun2.sh;
#  the registered commands never set these variables)
EVID = Path(os.environ.get("VERIF_EVIDENCE_DIR", ROOT / "evidence"))
REPLAY = Path(os.environ.get("VERIF_REPLAY_DIR", ROOT / "replay"))
REPO = Path(os.environ.get("Y0_REPO", "/repo"))
PY = "/venv/bin/python"
JAR = "/opt/veriftools/tla/tla2tools.jar:/opt/veriftools/tla/CommunityModules-deps.jar"
NCPU = min(16, os.cpu_count() or 4)
NSHARDS = 16   # number of driver shards: fixed, so that what a shard contains does not depend on the machine


def shard_hashseed(i: int) -> str:
    """PYTHONHASHSEED of the i-th driver shard: the implementation is exercised under four set-iteration orders
    (0-3); which inputs meet which order is deterministic because the sharding is."""
    return str(i % 4)


class MachineryError(RuntimeError):
    """TLC crashed, a file is missing, output unparsable: exit code 2, never a VIOLATION."""


def seed() -> int:
    try:
        return int(os.environ.get("VERIF_SEED", "0"))
    except ValueError:
        return 0


_MODREF = re.compile(r"^\s*(?:EXTENDS|LOCAL\s+INSTANCE|INSTANCE)\s+(.*)$", re.M)
_INSTANCE_IN = re.compile(r"==\s*INSTANCE\s+(\w+)")


def spec_closure(module: str) -> list[Path]:
    """The spec files a module depends on: its EXTENDS / INSTANCE closure within spec/ (standard modules are not files)."""
    seen: dict[str, Path] = {}
    todo = [module.removesuffix(".tla")]
    while todo:
        m = todo.pop()
        f = SPEC / f"{m}.tla"
        if m in seen or not f.exists():
            continue
        seen[m] = f
        text = f.read_text()
        for line in _MODREF.findall(text):
            todo += [w.strip() for w in line.split("WITH")[0].split(",") if w.strip()]
        todo += _INSTANCE_IN.findall(text)
    return [seen[k] for k in sorted(seen)]


def spec_hash(*names: str, module: str | None = None) -> str:
    h = hashlib.sha256()
    files = (spec_closure(module) + sorted(SPEC.glob(f"{module.removesuffix('.tla')}_*.cfg")) if module
             else sorted(SPEC.glob("*.tla")) + sorted(SPEC.glob("*.cfg")))
    for f in files:
        h.update(f.name.encode())
        h.update(f.read_bytes())
    for n in names:
        h.update(str(n).encode())
    return h.hexdigest()[:16]


def cached(name: str, fn, module: str | None = None):
    """Cache a JSON-able value that depends only on the spec (keyed by the hash of the module's EXTENDS closure, or of
    every spec file when no module is named)."""
    CACHE.mkdir(exist_ok=True)
    f = CACHE / f"{name}-{spec_hash(name, module=module)}.json"
    if f.exists():
        return json.loads(f.read_text()), True
    val = fn()
    tmp = f.with_suffix(f".tmp{os.getpid()}")
    tmp.write_text(json.dumps(val))
    tmp.replace(f)
    for old in CACHE.glob(f"{name}-????????????????.json"):   # values computed from earlier versions of the spec
        if old != f:
            old.unlink(missing_ok=True)
    return val, False


def workdir(tag: str) -> Path:
    d = WORK / f"{tag}-{os.getpid()}"
    if d.exists():
        shutil.rmtree(d)
    d.mkdir(parents=True)
    if not os.environ.get("VERIF_KEEP_WORK"):
        atexit.register(shutil.rmtree, d, True)
    return d


_STATS = re.compile(r"(\d+) states generated, (\d+) distinct states found")


def tlc(
    module: str,
    cfg: str | Path,
    *,
    workers: int = 1,
    env: dict[str, str] | None = None,
    meta: Path,
    timeout: int = 3600,
    xmx: str = "3g",
    simulate: str | None = None,
    depth: int | None = None,
    tlc_seed: int | None = None,
    deadlock: bool = False,
    gcthreads: int | None = None,
    cwd: Path | None = None,
) -> dict:
    """Run TLC once; return {'out': text, 'generated': n, 'distinct': n, 'ok': bool, 'rc': rc}."""
    meta.mkdir(parents=True, exist_ok=True)
    cmd = [
        "java",
        f"-Xmx{xmx}",
        "-Xss64m",
        "-XX:+UseParallelGC",
        f"-XX:ParallelGCThreads={gcthreads or max(2, min(8, workers))}",
        "-cp",
        JAR,
        "tlc2.TLC",
        "-workers",
        str(workers),
        "-metadir",
        str(meta),
        "-noGenerateSpecTE",
        "-config",
        str(cfg),
    ]
    if not deadlock:
        cmd += ["-deadlock"]
    if simulate:
        cmd += ["-simulate", simulate]
    if depth is not None:
        cmd += ["-depth", str(depth)]
    if tlc_seed is not None:
        cmd += ["-seed", str(tlc_seed)]
    cmd.append(module)
    e = dict(os.environ)
    e.update(env or {})
    t0 = time.time()
    try:
        p = subprocess.run(
            cmd, cwd=str(cwd or SPEC), env=e, capture_output=True, text=True, timeout=timeout
        )
    except subprocess.TimeoutExpired as exc:
        subprocess.run(["pkill", "-f", str(meta)], check=False)
        raise MachineryError(f"TLC timeout after {timeout}s: {module} {cfg}") from exc
    out = p.stdout + p.stderr
    m = None
    for m in _STATS.finditer(out):
        pass
    res = {
        "out": out,
        "rc": p.returncode,
        "generated": int(m.group(1)) if m else 0,
        "distinct": int(m.group(2)) if m else 0,
        "wall": time.time() - t0,
        "cmd": " ".join(cmd),
    }
    shutil.rmtree(meta, ignore_errors=True)
    return res


def tlc_ok(res: dict, what: str) -> None:
    """Raise MachineryError unless TLC finished without error."""
    out = res["out"]
    if "Model checking completed. No error has been found." in out:
        return
    if res["rc"] == 0 and "Error:" not in out:
        return
    tail = "\n".join(out.splitlines()[-40:])
    raise MachineryError(f"TLC failed ({what}), rc={res['rc']}:\n{tail}")


def tlc_violation(res: dict) -> str | None:
    """Return the name of a violated invariant/property reported by TLC (design-level failure)."""
    m = re.search(r"Error: Invariant (\S+) is violated", res["out"])
    if m:
        return m.group(1)
    m = re.search(r"Error: Action property (\S+) is violated", res["out"])
    if m:
        return m.group(1)
    if "Error: Temporal properties were violated" in res["out"]:
        return "temporal"
    return None


def tagged_lines(out: str, tag: str) -> list:
    """Extract `<<"TAG", "json">>` lines printed by PrintT(<<tag, ToJson(x)>>)."""
    pre = f'<<"{tag}", '
    rv = []
    for line in out.splitlines():
        if line.startswith(pre) and line.endswith(">>"):
            body = line[len(pre) : -2]
            try:
                rv.append(json.loads(json.loads(body)))
            except json.JSONDecodeError as exc:
                raise MachineryError(f"unparsable {tag} line: {line[:200]}") from exc
    return rv


def run_parallel(fn, jobs: list, workers: int = NCPU) -> list:
    with cf.ThreadPoolExecutor(max_workers=workers) as ex:
        return list(ex.map(fn, jobs))


def drive(script: str, args: list[str], *, env: dict[str, str] | None = None, timeout: int = 3600,
          hashseed: str = "0") -> subprocess.CompletedProcess:
    """Run a driver under the repository's interpreter against /repo's working tree."""
    e = dict(os.environ)
    e["PYTHONPATH"] = f"{REPO}/src:{ROOT}/harness"
    e["PYTHONHASHSEED"] = hashseed
    e["Y0_VERIF"] = "1"
    e.update(env or {})
    p = subprocess.run(
        [PY, str(ROOT / "harness" / script), *args],
        env=e,
        capture_output=True,
        text=True,
        timeout=timeout,
    )
    if p.returncode != 0:
        raise MachineryError(f"driver {script} failed rc={p.returncode}:\n{p.stderr[-3000:]}")
    return p


# ----------------------------------------------------------------------------- findings


def load_known() -> list[dict]:
    f = ROOT / "known_findings.json"
    if not f.exists():
        return []
    return json.loads(f.read_text())["findings"]


class Outcome:
    """Collects failures for one property and turns them into exit code / lines."""

    def __init__(self, pid: str, tier: str):
        self.pid = pid
        self.tier = tier
        self.t0 = time.time()
        self.failures: list[dict] = []  # {'key':..., 'sig':..., 'detail':...}
        self.known = [k for k in load_known() if k["property"] == pid and k.get("status") == "known"]
        # findings with many failing inputs keep their (key -> signatures) table in a committed side file
        self.tables = {}
        for k in self.known:
            if k.get("keys_file"):
                f = ROOT / k["keys_file"]
                self.tables[k["id"]] = json.loads(f.read_text())["keys"] if f.exists() else {}

    def fail(self, key: str, sig: str, detail: dict) -> None:
        self.failures.append({"key": key, "sig": sig, "detail": detail})

    def _match(self, f: dict) -> dict | None:
        for k in self.known:
            if k["id"] in self.tables:
                if f["sig"] in self.tables[k["id"]].get(f["key"], ()):
                    return k
                continue
            if k.get("key") == f["key"] and k.get("sig") in (None, f["sig"]):
                return k
            if k.get("key_prefix") and f["key"].startswith(k["key_prefix"]) and k.get("sig") in (None, f["sig"]):
                return k
        return None

    def finish(self, level: str, coverage: dict, assumptions: list[str]) -> int:
        new, old = [], {}
        for f in self.failures:
            k = self._match(f)
            if k is None:
                new.append(f)
            else:
                old.setdefault(k["id"], (k, []))[1].append(f)
        for kid, (k, fs) in sorted(old.items()):
            print(f"KNOWN-FINDING: property={self.pid} {kid}: {k['what']} ({len(fs)} records this run)")
        rc = 0
        d = REPLAY / self.pid
        if d.exists():
            shutil.rmtree(d, ignore_errors=True)
        if new:
            rc = 1
            d.mkdir(parents=True, exist_ok=True)
            for i, f in enumerate(new[:20]):
                path = d / f"violation_{i}.json"
                path.write_text(json.dumps(f, indent=1, sort_keys=True, default=str))
                print(f"VIOLATION property={self.pid} replay={path}")
            if len(new) > 20:
                print(f"... {len(new) - 20} further violating records not written out")
        coverage = dict(coverage)
        coverage["known_finding_records"] = sum(len(v[1]) for v in old.values())
        ev = {
            "property_id": self.pid,
            "tier": self.tier,
            "seed": seed(),
            "level": level,
            "coverage": coverage,
            "assumptions": assumptions,
            "wall_s": round(time.time() - self.t0, 2),
            "violations": len(new),
        }
        EVID.mkdir(exist_ok=True)
        (EVID / f"{self.pid}.json").write_text(json.dumps(ev, indent=1, default=str) + "\n")
        print(
            f"[{self.pid}/{self.tier}] records={coverage.get('traces_validated_against_impl')} "
            f"violations={len(new)} known={coverage['known_finding_records']} wall={ev['wall_s']}s"
        )
        return rc


def main_wrapper(fn) -> None:
    try:
        rc = fn()
    except MachineryError as exc:
        print(f"MACHINERY-ERROR: {exc}", file=sys.stderr)
        sys.exit(2)
    sys.exit(rc)

"""Warm the spec-only caches (no dependence on /repo)."""
import os, sys
sys.path.insert(0, os.path.dirname(os.path.abspath(__file__)))
import importlib
for mod in sorted(f[:-3] for f in os.listdir(os.path.dirname(os.path.abspath(__file__))) if f.startswith("check_c")):
    m = importlib.import_module(mod)
    if hasattr(m, "warm"):
        m.warm()
        print("warmed", mod)

#!/bin/sh
# usage: seedrun.sh <seed name> <property id>...   -- apply /verif/seeded/<name>/patch.diff to /repo, run quick checks, undo
NAME=$1; shift
cd /verif
if ! git -C /repo apply --check /verif/seeded/$NAME/patch.diff 2>/dev/null; then
  if ! git -C /repo apply --3way --check /verif/seeded/$NAME/patch.diff 2>/dev/null; then echo "PATCH-DOES-NOT-APPLY $NAME"; exit 3; fi
  git -C /repo apply --3way /verif/seeded/$NAME/patch.diff 2>/dev/null; git -C /repo reset -q
else
  git -C /repo apply /verif/seeded/$NAME/patch.diff
fi
for P in "$@"; do
  python3 harness/run_check.py $P --tier quick > /tmp/seedrun.$$ 2>&1; RC=$?
  echo "seed=$NAME check=$P rc=$RC violations=$(grep -c '^VIOLATION' /tmp/seedrun.$$) $(tail -1 /tmp/seedrun.$$)"
  [ $RC -eq 2 ] && tail -15 /tmp/seedrun.$$
done
rm -f /tmp/seedrun.$$
git -C /repo checkout -- . ; git -C /repo status --short | head -3

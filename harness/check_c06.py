"""C06: estimands mention only distributions the analyst actually has.

The vocabulary predicates live in the spec (ID.tla: ObsOnly; Transport.tla: TransportVocab; CF.tla: SingleWorldOnly)
and are invariants of the reference machines (IDMachine.Vocab ...).  Conformance: every estimand returned by
ID, IDC (and, via their own drivers, TRSO, ID*, IDC*) on the TLC-generated query families is validated by TLC.
"""

from __future__ import annotations

import random

import idcommon as ic
from common import Outcome, seed, workdir

PID = "C06"


def warm():
    pass


def vocab_groups(groups):
    return [dict(g, recs=[dict(r, k="vocab") for r in g["recs"]]) for g in groups]


def run(tier: str) -> int:
    out = Outcome(PID, tier)
    wd = workdir(PID)
    mcs = [ic.mc(wd, "A3", "id")[0], ic.mc(wd, "A3", "idc")[0]]
    rng = random.Random(6000 + seed())
    items, gens = [], []
    for mode in ("id", "idc"):
        g3 = ic.gen(wd, "A3", mode)[0]
        g4 = ic.gen(wd, "A4o", mode)[0]
        gens += [g3, g4]
        items += ic.with_gids(g3["items"], f"{mode}-A3-")
        items += ic.sample(ic.with_gids(g4["items"], f"{mode}-A4o-"), 300 if tier == "quick" else 4096, rng)
    groups = ic.run_y0(wd, items, 1, True, "c06")
    vs, st, by_id = ic.judge(wd, vocab_groups(groups), seeds=(1,))
    per = {"id": 0, "idc": 0}
    for i, v in vs.items():
        if v["clause"] in ("ok", "vocabulary"):
            per[i.split("-")[0]] += 1
    parts = [("ID/IDC", vs, by_id, ic.index(items))]
    stats = [st]
    try:
        import c06_extra  # transport / ID* / IDC* parts, present once those drivers exist
        for name, v2, b2, idx2, st2, per2 in c06_extra.parts(wd, tier):
            parts.append((name, v2, b2, idx2))
            stats.append(st2)
            per.update(per2)
    except ImportError:
        pass
    for name, v, b, idx in parts:
        if name == "transport":
            import trcommon as tc
            tc.report(out, v, b, only={"vocabulary"})
        elif name in ("idstar", "idcstar"):
            import cfcommon as cf
            cf.report(out, v, b, only={"vocabulary"})
        else:
            ic.report(out, v, b, idx, only_clauses={"vocabulary"})
    total = sum(len(p[1]) for p in parts)
    ok_ids = sorted(i for i, v in vs.items() if v["clause"] == "ok")
    cov = {
        "states": sum(m["distinct"] for m in mcs) + sum(g["distinct"] for g in gens) + sum(s["distinct"] for s in stats),
        "transitions": sum(m["generated"] for m in mcs) + sum(g["generated"] for g in gens) + sum(s["generated"] for s in stats),
        "traces_validated_against_impl": total,
        "estimands_inspected_per_algorithm": per,
        "distinct_nontrivial": sum(per.values()),
        "rule": "one record = one returned estimand; TLC evaluates the vocabulary predicate of the spec on the serialised "
                "term (ID/IDC: only unmarked, subscript-free, population-free probabilities over V(G)); non-trivial = record "
                "with an estimand; queries: all of 3-node ADMGs, seeded 4-node sample; ID* / IDC*: single-world terms only (SingleWorldOnly in "
                "CF.tla) on every single atom and slices of the pairs / three-world triples over the 3-node ADMGs and on two-atom events over "
                "seeded 4-node ADMGs",
        "samples": [{"id": i, "estimand": by_id[i][1]["out"].get("str")} for i in ok_ids[:: max(1, len(ok_ids) // 3)][:3]],
        "exhaustive": False,
        "design_mc": mcs,
    }
    return out.finish("model_checking", cov, [
        "names introduced by the library itself (T_, u_ ...) cannot be serialised to the integer name space and are reported as vocabulary failures"])

"""C04: d-separation verdicts equal true m-separation.

TLC proves (exhaustively, all ADMGs <= 4 nodes) that path m-separation, d-separation in the canonical
latent DAG and sigma-separation coincide, prints the verdict table of every graph, and the real
are_d_separated is replayed against those tables for every ordered pair and conditioning set.
"""

from __future__ import annotations

import json

import examples as ex
import sepcommon as sc
from common import Outcome, seed, workdir

PID = "C04"


def warm():
    sc.warm_all()


def run(tier: str) -> int:
    out = Outcome(PID, tier)
    wd = workdir(PID)
    fams = ["A3", "A4o", "DAG5o"]
    mcs = [sc.mc(wd, f)[0] for f in fams]
    gens = [sc.tables(wd, f)[0] for f in fams]
    recs = [r for g in gens for r in g["recs"]]
    extra = {"generated": 0, "distinct": 0}
    if tier == "thorough":
        a4 = sc.tables(wd, "A4")[0]
        recs = gens[0]["recs"] + a4["recs"]
        extra = a4
        r5 = sc.tables(wd, "RND", rnd_seed=500 + seed(), rndn=5, rndk=40)[0]
        recs += r5["recs"] + gens[2]["recs"] + sc.tables(wd, "B5o")[0]["recs"]
    else:
        r5 = sc.tables(wd, "RND", rnd_seed=500 + seed(), rndn=5, rndk=6)[0]
        recs += r5["recs"]
    exf = ex.sep_tables(wd)   # the repository's example catalogue (5-8 nodes), tables by SepFile.tla
    recs += exf["recs"]
    bc5 = sc.tables_extra(wd, "BC5")[0]   # 5-node ADMGs around a chain of three bidirected colliders (SepExtra.tla)
    recs += bc5["recs"]
    n_orders = 3
    stats, fails = sc.replay(wd, "dsep", recs, n_orders)
    seen = set()
    for f in fails:
        key = json.dumps({"g": f["g"], "a": min(f["a"], f["b"]), "b": max(f["a"], f["b"]), "c": f["c"]}, sort_keys=True)
        sig = f["clause"] + (":" + f["exc"] if "exc" in f else "") + (f":got={f['got']}" if "got" in f else "")
        if (key, sig) in seen:
            continue
        seen.add((key, sig))
        out.fail(key, sig, f)
    nontrivial = sum(1 for r in recs if r["g"]["b"] and r["sep"])
    cov = {
        "states": sum(m["distinct"] for m in mcs) + sum(g["distinct"] for g in gens) + r5["distinct"] + extra["distinct"] + exf["distinct"] + bc5["distinct"],
        "transitions": sum(m["generated"] for m in mcs) + sum(g["generated"] for g in gens) + r5["generated"] + extra["generated"] + exf["generated"] + bc5["generated"],
        "traces_validated_against_impl": stats.get("calls", 0),
        "graphs": len(recs),
        "true_separations_among_calls": stats.get("separated", 0),
        "samples": [recs[1], recs[len(recs) // 2]],
        "exhaustive": True,
        "design_mc": [{"family": m["family"], "distinct": m["distinct"], "invariants": ["EquivOnADMG", "SigmaLaws"]} for m in mcs],
        "insertion_orders": n_orders,
        "example_catalogue_graphs": exf["names"],
        "history_replays": stats.get("grow_steps", 0),
        "distinct_nontrivial": nontrivial,
        "rule": "one record = ADMG with its full verdict table {(a,b,C) separated}; every ordered pair and every C is "
                "replayed; non-trivial = graph with a bidirected edge and at least one separation; exhaustive over all "
                "200 ADMGs on 3 nodes, all 4096 topologically numbered ADMGs on 4 nodes (every isomorphism class) and all 1024 "
                "topologically numbered 5-node DAGs; the second insertion order replays SepMachine's Grow action on ONE object "
                "(predecessor graph queried completely, one edge added in place, every triple queried again); "
                "thorough adds all 34752 labelled 4-node ADMGs and 6380 sparse 5-node ADMGs with one bidirected edge; other 5-node graphs are seeded samples",
    }
    return out.finish("model_checking", cov, [
        "expected verdicts come from MSepPath in Separation.tla, proved equal by TLC to d-separation in the canonical latent DAG",
        "beyond 5 nodes only the 7 catalogue graphs (5-8 nodes) are explored"])

"""Record the line events of the real ID algorithm (hook y0._verif, guard Y0_VERIF=1) for TLC-generated queries.

usage: drive_idtrace.py <in.json> <out.json>;  in: list of {"g", "gid", "qs": [[x, y, z], ...]}
out: list of traces {"id", "g", "x", "y", "out", "evs": [{"line", "x", "y", "v"}]} with integer node names.
"""

from __future__ import annotations

import json
import sys

from ser import build_graph, num, var


def main():
    from y0 import _verif
    from y0.algorithm.identify import identify_outcomes

    out = []
    for item in json.load(open(sys.argv[1])):
        g = item["g"]
        for qi, q in enumerate(item["qs"]):
            x, y = q[0], q[1]
            graph = build_graph(g, qi % 2)
            _verif.drain()
            try:
                e = identify_outcomes(graph, {var(i) for i in x}, {var(i) for i in y})
                res = "unident" if e is None else "expr"
            except Exception as exc:  # noqa: BLE001
                res = "exc:" + type(exc).__name__
            evs = [{"line": ev["line"], "x": sorted(int(n[1:]) for n in ev["x"]), "y": sorted(int(n[1:]) for n in ev["y"]),
                    "v": sorted(int(n[1:]) for n in ev["v"])} for ev in _verif.drain() if ev["ev"] == "id"]
            out.append({"id": f"{item['gid']}:{qi}", "g": g, "x": x, "y": y, "out": res, "evs": evs})
    json.dump(out, open(sys.argv[2], "w"))


main()

"""C10: see check_expr.py (one specification, one pipeline for C10-C13)."""
import check_expr as ce

PID = "C10"


def warm():
    ce.warm()


def run(tier):
    return ce.run_for(PID, tier, RULE, ASSUME)


RULE = ("one record = canonicalize(object, ordering) on the really-built object of a TLC-generated math term (3 orderings), validated "
        "by TLC: same denotation on all assignments of a generic distribution, for well-scoped Q-free presentations; plus pairs of "
        "distinct objects that y0 declares canonically equal (same canonical form under the same ordering), which TLC must find "
        "semantically equal; non-trivial = distinct presentation")
ASSUME = ["Q-factors are outside the family (canonicalize rejects them with TypeError; the statement's family does not list them)",
          "presentations with a sum over a variable that does not occur free in the summand are skipped (not well-scoped)"]
